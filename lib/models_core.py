"""Model table, part 1: num-traits, Option/Result, ranges, slices, Vec, iterator adaptors, rand.

Each model is an axiom about a dependency (std / num-traits / rand / rayon); all of them are listed
in the evidence of the checks that used them (Engine.models_used).
"""
import re
from fractions import Fraction

import z3

from mirsym import (NONE, Closure, Enum, Err, Num, Ok, Opaque, PanicPath, Ref, RVec, Some, Struct, Tuple, Unmodelled,
                    b_and, b_not, b_or, clone_val, ite, num_fn)

MODELS = []
CURRENT_ENGINE = {}
USED = set()


def model(pat, doc=""):
    def deco(fn):
        def wrapped(eng, callee, args, _fn=fn, _pat=pat, _doc=doc):
            USED.add(_doc or _pat)
            CURRENT_ENGINE["eng"] = eng
            return _fn(eng, callee, args)
        MODELS.append((pat, wrapped))
        return fn
    return deco


def float_min(a, b):
    """f32::min / f64::min: a NaN operand is ignored (the other one is returned)"""
    r = ite(Num(a.v).le(Num(b.v)), Num(a.v), Num(b.v))
    if a.nan is None and b.nan is None:
        return r
    an, bn = a.is_nan(), b.is_nan()
    val = z3.If(z3.BoolVal(an) if isinstance(an, bool) else an, b.z(), z3.If(z3.BoolVal(bn) if isinstance(bn, bool) else bn, a.z(), r.z()))
    return Num(val, b_and(an, bn))


def float_max(a, b):
    r = ite(Num(a.v).ge(Num(b.v)), Num(a.v), Num(b.v))
    if a.nan is None and b.nan is None:
        return r
    an, bn = a.is_nan(), b.is_nan()
    val = z3.If(z3.BoolVal(an) if isinstance(an, bool) else an, b.z(), z3.If(z3.BoolVal(bn) if isinstance(bn, bool) else bn, a.z(), r.z()))
    return Num(val, b_and(an, bn))


def deref(v):
    while isinstance(v, Ref):
        v = v.get()
    return v


# ------------------------------------------------------------------------------------------------
# iterators
# ------------------------------------------------------------------------------------------------
class PyIter:
    """An iterator with a concrete, finite (or lazily produced) sequence of items."""

    def __init__(self, gen, size=None):
        self.gen = iter(gen)
        self.size = size

    def next(self):
        try:
            return Some(next(self.gen))
        except StopIteration:
            return NONE()

    def items(self):
        return list(self.gen)


def as_iter(v):
    v0 = v
    v = deref(v) if not isinstance(v, PyIter) else v
    if isinstance(v, PyIter):
        return v
    if isinstance(v, Struct) and v.name == "Range":
        s, e = v.fields
        if not (isinstance(s, int) and isinstance(e, int)):
            return PyIter(symbolic_range(s, e))
        return PyIter(range(s, e))
    if isinstance(v, RVec):
        return PyIter(list(v.items))
    if isinstance(v, list):
        return PyIter(list(v))
    raise Unmodelled("as_iter(%r)" % (type(v0).__name__,))


def symbolic_range(s, e):
    """items of start..end with symbolic integer bounds: empty if the path decides start >= end, otherwise the length must be
    forced by the path condition (e.g. `first..first + n` with concrete n)"""
    eng = CURRENT_ENGINE.get("eng")
    if eng is None or eng.ctx is None:
        raise Unmodelled("symbolic range bounds")
    zs = s if not isinstance(s, int) else z3.IntVal(s)
    ze = e if not isinstance(e, int) else z3.IntVal(e)
    if not eng.ctx.branch(zs < ze, "range non-empty"):
        return []
    n = eng.concretize_int(ze - zs)
    if n is None:
        raise Unmodelled("range of symbolic length")
    return [z3.simplify(zs + j) for j in range(n)]


def range_next(eng, callee, args):
    r = deref(args[0])
    if isinstance(r, PyIter):
        return r.next()
    s, e = r.fields
    if not (isinstance(s, int) and isinstance(e, int)):
        CURRENT_ENGINE["eng"] = eng
        it = PyIter(symbolic_range(s, e))
        # turn the Range into the iterator in place so that later next() calls continue it
        cont = args[0]
        if isinstance(cont, Ref):
            cont.set(it)
        return it.next()
    if s < e:
        r.fields[0] = s + 1
        return Some(s)
    return NONE()


@model(r"^<std::ops::Range<\w+> as IntoIterator>::into_iter$", "Range::into_iter = identity")
def m_range_into_iter(eng, callee, args):
    return args[0]


@model(r"^<std::ops::Range<\w+> as Iterator>::next$", "Range::next yields start..end in order")
def m_range_next(eng, callee, args):
    return range_next(eng, callee, args)


@model(r"^<.* as Iterator>::next$", "Iterator::next on modelled adaptors")
def m_iter_next(eng, callee, args):
    it = deref(args[0])
    if isinstance(it, PyIter):
        return it.next()
    if isinstance(it, Struct) and it.name == "Range":
        return range_next(eng, callee, args)
    raise Unmodelled("next on %r" % type(it).__name__)


@model(r"^<.* as IntoIterator>::into_iter$", "IntoIterator::into_iter for Vec / slices / adaptors")
def m_into_iter(eng, callee, args):
    v = args[0]
    if isinstance(v, PyIter):
        return v
    d = deref(v)
    if isinstance(v, Ref) and isinstance(d, (RVec, list)):
        items = d.items if isinstance(d, RVec) else d
        return PyIter([Ref(items, i) for i in range(len(items))], len(items))
    return as_iter(v)


@model(r"^core::slice::<impl \[.*\]>::iter$|^core::slice::<impl \[.*\]>::iter_mut$", "slice::iter yields references in order")
def m_slice_iter(eng, callee, args):
    d = deref(args[0])
    items = d.items if isinstance(d, RVec) else d
    if not isinstance(items, list):
        raise Unmodelled("slice::iter on %r" % type(d).__name__)
    return PyIter([Ref(items, i) for i in range(len(items))], len(items))


@model(r"^core::slice::<impl \[.*\]>::len$|^Vec::<.*>::len$", "len")
def m_len(eng, callee, args):
    d = deref(args[0])
    return len(d.items) if isinstance(d, RVec) else len(d)


@model(r"^<.* as Iterator>::zip::<", "Iterator::zip pairs items in order, stops at the shorter")
def m_zip(eng, callee, args):
    a, b = as_iter(args[0]), (args[1] if isinstance(args[1], PyIter) else m_into_iter(eng, "", [args[1]]))
    return PyIter((Tuple([x, y]) for x, y in zip(a.gen, b.gen)))


@model(r"^<.* as Iterator>::enumerate$", "Iterator::enumerate")
def m_enumerate(eng, callee, args):
    a = as_iter(args[0])
    return PyIter((Tuple([i, x]) for i, x in enumerate(a.gen)))


@model(r"^<.* as Iterator>::take$", "Iterator::take")
def m_take(eng, callee, args):
    a = as_iter(args[0])
    n = args[1]

    def g():
        for _ in range(n):
            try:
                yield next(a.gen)
            except StopIteration:
                return
    return PyIter(g())


@model(r"^<.* as Iterator>::rev$", "Iterator::rev")
def m_rev(eng, callee, args):
    return PyIter(list(reversed(as_iter(args[0]).items())))


@model(r"^<.* as Iterator>::cloned(::<.*>)?$|^<.* as Iterator>::copied(::<.*>)?$", "Iterator::cloned")
def m_cloned(eng, callee, args):
    a = as_iter(args[0])
    return PyIter((clone_val(deref(x)) for x in a.gen))


@model(r"^<.* as Iterator>::map::<", "Iterator::map applies the closure to each item in order (lazily)")
def m_map(eng, callee, args):
    a = as_iter(args[0])
    clo = args[1]
    return PyIter((eng.call_closure(clo, [x]) for x in a.gen))


@model(r"^<.* as Iterator>::for_each::<", "Iterator::for_each applies the closure to each item in order")
def m_for_each(eng, callee, args):
    a = as_iter(args[0])
    for x in a.gen:
        eng.call_closure(args[1], [x])
    return Tuple([])


@model(r"^<.* as Iterator>::fold::<", "Iterator::fold")
def m_fold(eng, callee, args):
    a = as_iter(args[0])
    acc = args[1]
    for x in a.gen:
        acc = eng.call_closure(args[2], [acc, x])
    return acc


@model(r"^<.* as Iterator>::sum::<", "Iterator::sum adds left to right from zero")
def m_sum(eng, callee, args):
    a = as_iter(args[0])
    acc = None
    for x in a.gen:
        x = deref(x)
        acc = x if acc is None else acc + x
    if acc is None:
        return Num(0) if re.search(r"sum::<(f32|f64|T)>", callee) else 0
    return acc


@model(r"^<.* as Iterator>::flatten$", "Iterator::flatten")
def m_flatten(eng, callee, args):
    a = as_iter(args[0])

    def g():
        for x in a.gen:
            d = deref(x)
            if isinstance(d, Enum) and d.ty == "Option":
                if d.variant == "Some":
                    yield (Ref(d.fields, 0) if isinstance(x, Ref) else d.fields[0])
                continue
            for y in as_iter(x).gen:
                yield y
    return PyIter(g())


@model(r"^<.* as Iterator>::collect::<Vec<|^<.* as Iterator>::collect::<std::vec::Vec<", "Iterator::collect into Vec keeps order")
def m_collect_vec(eng, callee, args):
    return RVec(as_iter(args[0]).items())


@model(r"^<.* as Iterator>::unzip::<|^<.* as Iterator>::collect::<\(Vec<", "collect/unzip into a pair of Vecs")
def m_unzip(eng, callee, args):
    xs = as_iter(args[0]).items()
    return Tuple([RVec([x.fields[0] for x in xs]), RVec([x.fields[1] for x in xs])])


@model(r"^<std::vec::IntoIter<.*> as Iterator>::fold::<", "vec::IntoIter::fold")
def m_vec_fold(eng, callee, args):
    return m_fold(eng, callee, args)


# --- rayon: order-preserving, closure applied once per index ------------------------------------
@model(r"as rayon::iter::IntoParallelIterator>::into_par_iter$|as rayon::iter::IntoParallelRefMutIterator<.*>>::par_iter_mut$"
       r"|as IntoParallelRefMutIterator<.*>>::par_iter_mut$|as IntoParallelIterator>::into_par_iter$",
       "rayon into_par_iter/par_iter_mut: same items as the sequential iterator")
def m_par_iter(eng, callee, args):
    v = args[0]
    d = deref(v)
    if isinstance(v, Ref) and isinstance(d, (RVec, list)):
        items = d.items if isinstance(d, RVec) else d
        return PyIter([Ref(items, i, True) for i in range(len(items))])
    return as_iter(v)


@model(r"as rayon::iter::ParallelIterator>::map::<|as ParallelIterator>::map::<",
       "rayon map: closure applied to every item, results in index order (rayon's collect contract)")
def m_par_map(eng, callee, args):
    return m_map(eng, callee, args)


@model(r"as rayon::iter::ParallelIterator>::collect::<|as ParallelIterator>::collect::<", "rayon collect preserves index order")
def m_par_collect(eng, callee, args):
    return RVec(as_iter(args[0]).items())


@model(r"as rayon::iter::ParallelIterator>::for_each::<|as ParallelIterator>::for_each::<", "rayon for_each: closure applied once per item")
def m_par_for_each(eng, callee, args):
    return m_for_each(eng, callee, args)


@model(r"as rayon::iter::IndexedParallelIterator>::enumerate$|as IndexedParallelIterator>::enumerate$", "rayon enumerate")
def m_par_enum(eng, callee, args):
    return m_enumerate(eng, callee, args)


# ------------------------------------------------------------------------------------------------
# Vec
# ------------------------------------------------------------------------------------------------
@model(r"^Vec::<.*>::new$|^Vec::<.*>::with_capacity$", "Vec::new / with_capacity = empty vector")
def m_vec_new(eng, callee, args):
    return RVec([])


@model(r"^(core|std)::slice::<impl \[.*\]>::(chunks|chunks_exact)$", "slice::chunks(n): consecutive sub-slices of n items (last one shorter for chunks); panics for n = 0")
def m_slice_chunks(eng, callee, args):
    v = deref(args[0])
    items = list(v.items if isinstance(v, RVec) else v)
    n = args[1]
    if not isinstance(n, int):
        raise Unmodelled("symbolic chunk size")
    if n == 0:
        raise PanicPath("chunk size must be non-zero")
    out = []
    for lo in range(0, len(items), n):
        part = items[lo:lo + n]
        if callee.endswith("chunks_exact") and len(part) < n:
            break
        cell = [RVec(part)]
        out.append(Ref(cell, 0))
    return PyIter(out, len(out))


@model(r"^Vec::<.*>::extend_from_slice$", "Vec::extend_from_slice appends clones of the slice's items")
def m_vec_extend_from_slice(eng, callee, args):
    src = deref(args[1])
    items = src.items if isinstance(src, RVec) else src
    deref(args[0]).items.extend(clone_val(x) for x in items)
    return Tuple([])


@model(r"^Vec::<.*>::push$", "Vec::push appends")
def m_vec_push(eng, callee, args):
    deref(args[0]).items.append(args[1])
    return Tuple([])


@model(r"^<Vec<.*> as (std::ops::)?Index(Mut)?<usize>>::index(_mut)?$|^<\[.*\] as (std::ops::)?Index(Mut)?<usize>>::index(_mut)?$", "Vec indexing (bounds-checked)")
def m_vec_index(eng, callee, args):
    v = deref(args[0])
    items = v.items if isinstance(v, RVec) else v
    i = args[1]
    if not isinstance(i, int):
        raise Unmodelled("symbolic Vec index")
    if i >= len(items):
        raise PanicPath("index out of bounds")
    return Ref(items, i)


@model(r"^<Vec<.*> as Deref>::deref$|^<Vec<.*> as std::ops::Deref>::deref$|^Vec::<.*>::as_slice$|^<Vec<.*> as DerefMut>::deref_mut$"
       r"|^Vec::<.*>::as_mut_slice$", "Vec derefs to its slice")
def m_vec_deref(eng, callee, args):
    return args[0]


@model(r"^<Vec<.*> as Clone>::clone$|^(core|std|alloc)::slice::<impl \[.*\]>::to_vec$|^<\[.*\] as ToOwned>::to_owned$", "Vec::clone / to_vec copies the items")
def m_vec_clone(eng, callee, args):
    v = deref(args[0])
    items = v.items if isinstance(v, RVec) else v
    return RVec([clone_val(x) for x in items])


@model(r"^<Vec<.*> as From<.*>>::from$|^<\[.*\] as .*>::into_vec$|^std::slice::<impl \[.*\]>::into_vec", "Vec::from(array)")
def m_vec_from(eng, callee, args):
    v = deref(args[0])
    return RVec(list(v.items if isinstance(v, RVec) else v))


@model(r"^std::vec::from_elem::<", "vec![x; n]")
def m_from_elem(eng, callee, args):
    return RVec([clone_val(args[0]) for _ in range(args[1])])


@model(r"^alloc::alloc::exchange_malloc$|^std::boxed::Box::<.*>::new$|^Box::<.*>::new$", "Box::new = the value")
def m_box(eng, callee, args):
    return args[0] if args else Opaque("box")


# ------------------------------------------------------------------------------------------------
# Option / Result
# ------------------------------------------------------------------------------------------------
@model(r"^std::option::Option::<.*>::unwrap$|^Option::<.*>::unwrap$", "Option::unwrap panics on None")
def m_opt_unwrap(eng, callee, args):
    v = args[0]
    if v.variant == "Some":
        return v.fields[0]
    raise PanicPath("called `Option::unwrap()` on a `None` value")


@model(r"^std::option::Option::<.*>::expect$|^Option::<.*>::expect$", "Option::expect panics on None")
def m_opt_expect(eng, callee, args):
    v = args[0]
    if v.variant == "Some":
        return v.fields[0]
    raise PanicPath("Option::expect on None")


@model(r"^Result::<.*>::unwrap$|^std::result::Result::<.*>::unwrap$|^Result::<.*>::expect$|^std::result::Result::<.*>::expect$",
       "Result::unwrap/expect panics on Err")
def m_res_unwrap(eng, callee, args):
    v = args[0]
    if v.variant == "Ok":
        return v.fields[0]
    raise PanicPath("called `Result::unwrap()` on an `Err` value")


@model(r"^<Result<.*> as Try>::branch$|^<std::result::Result<.*> as Try>::branch$|^<Result<.*> as std::ops::Try>::branch$", "Try::branch for Result")
def m_try_branch(eng, callee, args):
    v = args[0]
    if v.variant == "Ok":
        return Enum("ControlFlow", "Continue", [v.fields[0]])
    return Enum("ControlFlow", "Break", [Enum("Result", "Err", [v.fields[0]])])


@model(r"as FromResidual<.*>>::from_residual$", "FromResidual for Result")
def m_from_residual(eng, callee, args):
    v = args[0]
    return Enum("Result", "Err", [v.fields[0]])


@model(r"^Result::<.*>::map_err::<|^std::result::Result::<.*>::map_err::<", "Result::map_err")
def m_map_err(eng, callee, args):
    v = args[0]
    if v.variant == "Ok":
        return v
    return Err(eng.call_closure(args[1], [v.fields[0]]))


@model(r"^std::option::Option::<.*>::ok_or::<|^Option::<.*>::ok_or::<", "Option::ok_or")
def m_ok_or(eng, callee, args):
    v = args[0]
    return Ok(v.fields[0]) if v.variant == "Some" else Err(args[1])


# ------------------------------------------------------------------------------------------------
# num-traits on the generic float T (R-mode: mathematical reals)
# ------------------------------------------------------------------------------------------------
@model(r"^<(T|F|f32|f64) as (std::ops::)?(Add|Sub|Mul|Div)(<.*>)?>::(add|sub|mul|div)$", "float +,-,*,/ (R-mode: real arithmetic)")
def m_arith(eng, callee, args):
    a, b = Num.of(deref(args[0])), Num.of(deref(args[1]))
    op = callee.rsplit("::", 1)[1]
    return {"add": a + b, "sub": a - b, "mul": a * b, "div": a / b}[op]


@model(r"^<&(f32|f64|T) as (std::ops::)?(Add|Sub|Mul|Div)<.*>>::(add|sub|mul|div)$", "&float op float")
def m_arith_ref(eng, callee, args):
    return m_arith(eng, callee, args)


@model(r"^<(T|F|f32|f64) as (std::ops::)?Neg>::neg$", "float negation")
def m_neg(eng, callee, args):
    return -Num.of(deref(args[0]))


@model(r"^<(T|F|f32|f64) as (std::ops::)?AddAssign>::add_assign$", "float +=")
def m_add_assign(eng, callee, args):
    r = args[0]
    r.set(Num.of(r.get()) + Num.of(deref(args[1])))
    return Tuple([])


@model(r"^<(T|F|S|f32|f64) as PartialOrd>::(lt|le|gt|ge)$", "float comparison (R-mode: total order on reals, no NaN)")
def m_cmp(eng, callee, args):
    a, b = Num.of(deref(args[0])), Num.of(deref(args[1]))
    op = callee.rsplit("::", 1)[1]
    return {"lt": a.lt, "le": a.le, "gt": a.gt, "ge": a.ge}[op](b)


@model(r"^<(T|F|S|f32|f64) as PartialEq>::(eq|ne)$", "scalar equality")
def m_eq(eng, callee, args):
    a, b = Num.of(deref(args[0])), Num.of(deref(args[1]))
    return a.eq(b) if callee.endswith("eq") else a.ne(b)


@model(r"^<(T|F) as NumCast>::from::<(f64|f32)>$|^<(T|F) as FromPrimitive>::from_(f64|f32)$", "NumCast::from(float) = Some(same real)")
def m_numcast_f(eng, callee, args):
    return Some(Num.of(args[0]))


@model(r"^<(T|F) as NumCast>::from::<(usize|i32|u64|i64|u32|isize)>$|^<(T|F) as FromPrimitive>::from_(usize|i32|u64)$",
       "NumCast::from(int) = Some(that integer as a real)")
def m_numcast_i(eng, callee, args):
    v = args[0]
    if not isinstance(v, int):
        c = eng.concretize_int(v)
        if c is not None:
            v = c
    return Some(Num(v) if isinstance(v, int) else Num(z3.ToReal(v)))


@model(r"^<(T|F|f32|f64) as (num_traits::)?One>::one$", "One::one = 1")
def m_one(eng, callee, args):
    return Num(1)


@model(r"^<(T|F|f32|f64) as (num_traits::)?Zero>::zero$", "Zero::zero = 0")
def m_zero(eng, callee, args):
    return Num(0)


@model(r"^<(T|F) as FloatConst>::PI$|^<(T|F) as num_traits::FloatConst>::PI$", "FloatConst::PI = the symbol pi (3.14159 < pi < 3.1416)")
def m_pi(eng, callee, args):
    import mirsym
    return mirsym.PI




@model(r"^<(T|F|f32|f64) as (num_traits::)?Float>::(ln|exp|sqrt)$|^(f32|f64)::(ln|exp|sqrt)$|^std::(f32|f64)::<impl (f32|f64)>::(ln|exp|sqrt)$",
       "ln/exp/sqrt: uninterpreted real functions")
def m_transc(eng, callee, args):
    return num_fn(callee.rsplit("::", 1)[1], Num.of(deref(args[0])))


@model(r"^<(T|F|f32|f64) as (num_traits::)?Float>::powf$|^std::(f32|f64)::<impl (f32|f64)>::powf$", "powf: uninterpreted real function of (base, exponent)")
def m_powf(eng, callee, args):
    return num_fn("powf", Num.of(args[0]), Num.of(args[1]))


@model(r"^<(T|F|f32|f64) as (num_traits::)?Float>::abs$|^std::(f32|f64)::<impl (f32|f64)>::abs$", "abs")
def m_abs(eng, callee, args):
    a = Num.of(args[0])
    return ite(a.lt(0), -a, a)


@model(r"^<(T|F|f32|f64) as (num_traits::)?Float>::min$", "Float::min (R-mode)")
def m_min(eng, callee, args):
    a, b = Num.of(args[0]), Num.of(args[1])
    return float_min(a, b)


@model(r"^<(T|F|f32|f64) as (num_traits::)?Float>::max$", "Float::max (R-mode)")
def m_max(eng, callee, args):
    a, b = Num.of(args[0]), Num.of(args[1])
    return float_max(a, b)


@model(r"^<(T|F|f32|f64) as (num_traits::)?Float>::is_nan$|^(f32|f64)::is_nan$|^std::(f32|f64)::<impl (f32|f64)>::is_nan$", "is_nan: the NaN flag (false in R-mode)")
def m_is_nan(eng, callee, args):
    return Num.of(deref(args[0])).is_nan()


@model(r"^<(T|F) as (num_traits::)?Float>::epsilon$", "Float::epsilon = a small positive symbol")
def m_eps(eng, callee, args):
    return EPS


EPS = Num(z3.Real("float_epsilon"))


@model(r"^<(T|F) as (num_traits::)?Float>::(infinity|neg_infinity|nan)$", "non-finite constants are outside R-mode")
def m_inf(eng, callee, args):
    raise Unmodelled("non-finite float constant in R-mode: " + callee)


@model(r"^<usize as Ord>::max$|^std::cmp::max::<usize>$|^<usize as Ord>::min$|^std::cmp::min::<usize>$", "usize max/min")
def m_usize_max(eng, callee, args):
    a, b = args
    if isinstance(a, int) and isinstance(b, int):
        return max(a, b) if "max" in callee else min(a, b)
    za, zb = (z3.IntVal(a) if isinstance(a, int) else a), (z3.IntVal(b) if isinstance(b, int) else b)
    return z3.If(za >= zb, za, zb) if "max" in callee else z3.If(za <= zb, za, zb)


@model(r"^<(usize|u64|i32) as (num_traits::)?ToPrimitive>::to_f32$|^<(usize|u64) as (num_traits::)?ToPrimitive>::to_f64$", "int to float")
def m_to_f32(eng, callee, args):
    v = deref(args[0])
    return Some(Num(v) if isinstance(v, int) else Num(z3.ToReal(v)))


@model(r"^<(T|f32|f64) as (num_traits::)?ToPrimitive>::to_f32$|^<(T|f32|f64) as (num_traits::)?ToPrimitive>::to_f64$", "float to float (R-mode identity)")
def m_f_to_f32(eng, callee, args):
    return Some(Num.of(deref(args[0])))


@model(r"^<(f32|f64|T|usize|i32|u64|bool) as Clone>::clone$", "scalar clone")
def m_scalar_clone(eng, callee, args):
    return clone_val(deref(args[0]))


@model(r"^<(usize|u64|u32|i32|i64) as TryInto<\w+>>::try_into$|^<(usize|u64) as TryFrom<\w+>>::try_from$", "integer conversion in range")
def m_try_into(eng, callee, args):
    return Ok(args[0])


# ------------------------------------------------------------------------------------------------
# formatting, printing, panics
# ------------------------------------------------------------------------------------------------
@model(r"^Arguments::<'_>::new|^core::fmt::rt::|^std::fmt::Arguments|^format_args|^core::fmt::Arguments", "format_args: opaque")
def m_fmt_args(eng, callee, args):
    return Opaque("fmt::Arguments")


@model(r"^format::|^std::fmt::format|^alloc::fmt::format|^std::io::_print$|^std::io::_eprint$|^_print$|^_eprint$", "format!/print!: no-ops")
def m_format(eng, callee, args):
    return Opaque("String")


@model(r"^<.* as ToString>::to_string$|^<str as ToString>::to_string$|^<String as From<.*>>::from$|^<.* as Into<.*String.*>>::into$", "strings are opaque")
def m_to_string(eng, callee, args):
    return Opaque("String")


@model(r"^core::panicking::|^std::rt::begin_panic|^core::panicking::assert_failed", "panic entry points")
def m_panic(eng, callee, args):
    raise PanicPath(callee)


@model(r"^std::mem::drop::<|^core::mem::drop::<|^drop::<", "mem::drop")
def m_drop(eng, callee, args):
    return Tuple([])


# ------------------------------------------------------------------------------------------------
# rand: every draw is a fresh solver variable appended to the path's draw log
# ------------------------------------------------------------------------------------------------
def draw(eng, kind):
    ctx = eng.ctx
    x = ctx.fresh_real(kind)
    if kind == "uniform":
        ctx.assume(z3.And(x.z() >= 0, x.z() < 1))
    elif kind == "exp1":
        ctx.assume(x.z() >= 0)
    ctx.draws.append((kind, x))
    return x


@model(r"^<.*SmallRng as rand::Rng>::random::<(T|f32|f64|F)>$|^<&mut .*SmallRng as rand::Rng>::random::<(T|f32|f64)>$",
       "Rng::random::<float>() = an arbitrary value in [0,1) (fresh solver variable per call, appended to the draw log)")
def m_random(eng, callee, args):
    return draw(eng, "uniform")


@model(r"^<.*SmallRng as rand::Rng>::sample::<(T|f32|f64), Exp1>$", "Rng::sample(Exp1) = an arbitrary non-negative value (draw log)")
def m_sample_exp1(eng, callee, args):
    return draw(eng, "exp1")


@model(r"^<.*SmallRng as rand::Rng>::sample::<(T|f32|f64), StandardNormal>$|^<StandardNormal as Distribution<(T|f32|f64)>>::sample::<",
       "sample(StandardNormal) = an arbitrary real (draw log)")
def m_sample_normal(eng, callee, args):
    return draw(eng, "normal")


@model(r"^<&mut .*SmallRng as rand::Rng>::sample_iter::<(T|f32|f64), StandardNormal>$", "sample_iter(StandardNormal): stream of arbitrary reals (draw log)")
def m_sample_iter(eng, callee, args):
    def g():
        while True:
            yield draw(eng, "normal")
    return PyIter(g())


# --- rand_distr::Normal ---------------------------------------------------------------------
@model(r"^rand_distr::Normal::<.*>::new$", "Normal::new(mean, std): Ok (std finite) -- location/scale family of StandardNormal")
def m_normal_new(eng, callee, args):
    return Ok(Struct("Normal", ["mean", "std_dev"], [Num.of(args[0]), Num.of(args[1])]))


@model(r"^<rand_distr::Normal<.*> as (rand_distr::)?Distribution<.*>>::sample_iter::<", "Normal::sample_iter: mean + std * z for successive StandardNormal draws z (draw log)")
def m_normal_sample_iter(eng, callee, args):
    nrm = deref(args[0])
    mean, std = nrm.fields

    def g():
        while True:
            yield mean + std * draw(eng, "normal")
    return PyIter(g())


@model(r"^<rand_distr::Normal<.*> as (rand_distr::)?Distribution<.*>>::sample::<", "Normal::sample: mean + std * z")
def m_normal_sample(eng, callee, args):
    nrm = deref(args[0])
    mean, std = nrm.fields
    return mean + std * draw(eng, "normal")


# --- integer methods of std (concrete integers; sizes are concrete in every configuration) --------
def _ints(args):
    vals = [deref(a) for a in args]
    if not all(isinstance(v, int) and not isinstance(v, bool) for v in vals):
        raise Unmodelled("integer method on symbolic operands")
    return vals


@model(r"^core::num::<impl (usize|u64|u32|i32|i64|isize|u8|u16)>::(div_ceil|saturating_sub|saturating_add|saturating_mul|wrapping_sub|wrapping_mul|"
       r"pow|abs_diff|min|max|next_power_of_two|is_power_of_two|div_euclid|rem_euclid|is_multiple_of|abs|signum|"
       r"checked_add|checked_sub|checked_mul|checked_div|unsigned_abs|leading_zeros|trailing_zeros|count_ones|isqrt|ilog2|midpoint)$",
       "std integer methods (exact integer semantics)")
def m_int_methods(eng, callee, args):
    m = re.search(r"<impl (\w+)>::(\w+)$", callee)
    ty, op = m.group(1), m.group(2)
    from mirsym import INT_RANGES
    lo, hi = INT_RANGES[ty]
    raw = [deref(x) for x in args]
    if any(not isinstance(x, int) for x in raw) and op in ("checked_add", "checked_sub", "wrapping_add", "wrapping_sub",
                                                             "saturating_add", "saturating_sub", "min", "max"):
        # symbolic operands (seed arithmetic): mathematical integers with the machine range made explicit
        za, zb = [z3.IntVal(x) if isinstance(x, int) else x for x in raw[:2]]
        r = za + zb if op.endswith("add") else (za - zb if op.endswith("sub") else None)
        span = hi - lo + 1
        if op.startswith("checked"):
            fits = z3.And(r >= lo, r <= hi)
            return Some(r) if eng.ctx.branch(fits, op) else NONE()
        if op.startswith("wrapping"):
            return z3.If(r > hi, r - span, z3.If(r < lo, r + span, r))
        if op.startswith("saturating"):
            return z3.If(r > hi, z3.IntVal(hi), z3.If(r < lo, z3.IntVal(lo), r))
        if op == "min":
            return z3.If(za <= zb, za, zb)
        return z3.If(za >= zb, za, zb)
    v = _ints(args)
    a = v[0]
    b = v[1] if len(v) > 1 else None
    wrap = lambda r: (r - lo) % (hi - lo + 1) + lo  # noqa: E731
    if op == "div_ceil":
        if b == 0:
            raise PanicPath("attempt to divide by zero")
        return -((-a) // b)
    if op == "saturating_sub":
        return max(lo, min(hi, a - b))
    if op == "saturating_add":
        return max(lo, min(hi, a + b))
    if op == "saturating_mul":
        return max(lo, min(hi, a * b))
    if op == "wrapping_sub":
        return wrap(a - b)
    if op == "wrapping_mul":
        return wrap(a * b)
    if op == "pow":
        r = a ** b
        if not lo <= r <= hi:
            raise PanicPath("attempt to multiply with overflow")
        return r
    if op == "abs_diff":
        return abs(a - b)
    if op == "min":
        return min(a, b)
    if op == "max":
        return max(a, b)
    if op == "next_power_of_two":
        r = 1
        while r < a:
            r <<= 1
        return r
    if op == "is_power_of_two":
        return a > 0 and a & (a - 1) == 0
    if op == "div_euclid":
        if b == 0:
            raise PanicPath("attempt to divide by zero")
        q = a // b if b > 0 else -(a // -b)
        return q
    if op == "rem_euclid":
        if b == 0:
            raise PanicPath("attempt to calculate the remainder with a divisor of zero")
        return a % abs(b)
    if op == "is_multiple_of":
        return (a == 0) if b == 0 else a % b == 0
    if op in ("abs", "unsigned_abs"):
        return abs(a)
    if op == "signum":
        return (a > 0) - (a < 0)
    if op in ("checked_add", "checked_sub", "checked_mul"):
        r = {"checked_add": a + b, "checked_sub": a - b, "checked_mul": a * b}[op]
        return Some(r) if lo <= r <= hi else NONE()
    if op == "checked_div":
        return NONE() if b == 0 else Some(int(a / b))
    if op == "leading_zeros":
        bits = (hi - lo + 1).bit_length() - 1
        return bits - a.bit_length()
    if op == "trailing_zeros":
        bits = (hi - lo + 1).bit_length() - 1
        return bits if a == 0 else (a & -a).bit_length() - 1
    if op == "count_ones":
        return bin(a % (hi - lo + 1)).count("1")
    if op == "isqrt":
        import math
        return math.isqrt(a)
    if op == "ilog2":
        if a <= 0:
            raise PanicPath("ilog2 of non-positive")
        return a.bit_length() - 1
    if op == "midpoint":
        return (a + b) // 2
    raise Unmodelled(callee)


@model(r"^std::cmp::(min|max)::<(usize|u64|i32|i64|u32)>$|^<(usize|u64|i32|i64|u32) as Ord>::(min|max|clamp)$", "integer min/max/clamp")
def m_int_minmax(eng, callee, args):
    v = [deref(a) for a in args]
    if all(isinstance(x, int) for x in v):
        if callee.endswith("clamp"):
            return max(v[1], min(v[2], v[0]))
        return min(v) if "min" in callee.rsplit("::", 1)[1] or "::min::" in callee else max(v)
    return m_usize_max(eng, callee, args)


@model(r"^rng$|^rand::rng$|^rand::rngs::thread::rng$", "rand::rng(): the thread-local generator (opaque)")
def m_thread_rng(eng, callee, args):
    return Struct("ThreadRng", [], [])


@model(r"^<ThreadRng as rand::Rng>::random::<u64>$|^<rand::rngs::ThreadRng as rand::Rng>::random::<u64>$", "ThreadRng::random::<u64>(): arbitrary 64-bit value")
def m_thread_rng_u64(eng, callee, args):
    x = eng.ctx.fresh_int("thread_rng_u64")
    eng.ctx.assume(z3.And(x >= 0, x <= 2 ** 64 - 1))
    return x


@model(r"^Vec::<.*>::remove$", "Vec::remove(i): panics when out of bounds")
def m_vec_remove(eng, callee, args):
    v = deref(args[0])
    i = args[1]
    if not isinstance(i, int) or i >= len(v.items):
        raise PanicPath("Vec::remove: index out of bounds")
    return v.items.pop(i)


@model(r"^std::slice::<impl \[(usize|u64|i32|u32)\]>::sort(_unstable)?$|^core::slice::<impl \[(usize|u64|i32|u32)\]>::sort(_unstable)?$", "sort of a slice of concrete integers")
def m_sort_ints(eng, callee, args):
    v = deref(args[0])
    items = v.items if isinstance(v, RVec) else v
    if not all(isinstance(x, int) for x in items):
        raise Unmodelled("sort of symbolic integers")
    items.sort()
    return Tuple([])


@model(r"^sleep$|^std::thread::sleep$", "thread::sleep: returns (counted per path)")
def m_sleep(eng, callee, args):
    ctx = eng.ctx
    ctx.sleeps = getattr(ctx, "sleeps", 0) + 1
    lim = getattr(ctx, "sleep_limit", None)
    if lim is not None and ctx.sleeps > lim:
        from mirsym import BoundHit
        raise BoundHit("more than %d reporter iterations" % lim)
    return Tuple([])


@model(r"^<ThreadRng as rand::Rng>::random::<(T|f32|f64)>$|^<rand::rngs::ThreadRng as rand::Rng>::random::<(T|f32|f64)>$|^rand::random::<(T|f32|f64)>$|^random::<(T|f32|f64)>$",
       "thread-local generator: a uniform draw logged as 'global_uniform' (not the sampler's own generator)")
def m_thread_rng_float(eng, callee, args):
    x = eng.ctx.fresh_real("global_uniform")
    eng.ctx.assume(z3.And(x.z() >= 0, x.z() < 1))
    eng.ctx.draws.append(("global_uniform", x))
    return x


@model(r"^<ThreadRng as rand::Rng>::sample::<(T|f32|f64), (StandardNormal|Exp1)>$|^<rand::rngs::ThreadRng as rand::Rng>::sample::<(T|f32|f64), (StandardNormal|Exp1)>$",
       "thread-local generator: a normal / exponential draw logged as global")
def m_thread_rng_sample(eng, callee, args):
    kind = "global_normal" if "StandardNormal" in callee else "global_exp1"
    x = eng.ctx.fresh_real(kind)
    if kind == "global_exp1":
        eng.ctx.assume(x.z() >= 0)
    eng.ctx.draws.append((kind, x))
    return x


BIGF = Num(z3.Real("float_max_value"))


@model(r"^<(T|F|f32|f64) as (num_traits::)?Float>::(max_value|min_value)$|^<(T|F) as (num_traits::)?Bounded>::(max_value|min_value)$",
       "Float::max_value / min_value: +-(a symbol larger than 1e30)")
def m_float_max_value(eng, callee, args):
    eng.ctx.assume(BIGF.z() > z3.RealVal("1000000000000000000000000000000"))
    return BIGF if callee.endswith("max_value") else -BIGF


# --- further std iterator adaptors (not used by the pinned tree; present so that changed code stays decidable) -------
@model(r"^<.* as Iterator>::step_by$", "Iterator::step_by")
def m_step_by(eng, callee, args):
    items = as_iter(args[0]).items()
    return PyIter(items[::args[1]])


@model(r"^<.* as Iterator>::skip$", "Iterator::skip")
def m_skip(eng, callee, args):
    items = as_iter(args[0]).items()
    return PyIter(items[args[1]:])


@model(r"^<.* as Iterator>::chain::<", "Iterator::chain")
def m_chain(eng, callee, args):
    a = as_iter(args[0])
    b = args[1] if isinstance(args[1], PyIter) else m_into_iter(eng, "", [args[1]])

    def g():
        for x in a.gen:
            yield x
        for x in b.gen:
            yield x
    return PyIter(g())


@model(r"^<.* as Iterator>::flat_map::<", "Iterator::flat_map")
def m_flat_map(eng, callee, args):
    a = as_iter(args[0])

    def g():
        for x in a.gen:
            inner = eng.call_closure(args[1], [x])
            it = inner if isinstance(inner, PyIter) else m_into_iter(eng, "", [inner])
            for y in it.gen:
                yield y
    return PyIter(g())


@model(r"^<.* as Iterator>::filter::<", "Iterator::filter (concrete predicates)")
def m_filter(eng, callee, args):
    a = as_iter(args[0])

    def g():
        for x in a.gen:
            keep = eng.call_closure(args[1], [Ref.to(x)])
            if eng.ctx.branch(keep, "filter"):
                yield x
    return PyIter(g())


@model(r"^<.* as Iterator>::(count|last|nth)$", "Iterator::count / last / nth")
def m_count_last(eng, callee, args):
    items = as_iter(args[0]).items()
    if callee.endswith("count"):
        return len(items)
    if callee.endswith("last"):
        return Some(items[-1]) if items else NONE()
    return Some(items[args[1]]) if args[1] < len(items) else NONE()


@model(r"^<.* as Iterator>::(any|all)::<", "Iterator::any / all")
def m_any_all(eng, callee, args):
    a = as_iter(args[0])
    is_any = "::any::<" in callee
    for x in a.gen:
        r = eng.ctx.branch(eng.call_closure(args[1], [x]), "any/all")
        if is_any and r:
            return True
        if not is_any and not r:
            return False
    return not is_any


@model(r"^<std::ops::RangeInclusive<\w+> as IntoIterator>::into_iter$|^<std::ops::RangeInclusive<\w+> as Iterator>::", "RangeInclusive iteration")
def m_range_incl(eng, callee, args):
    r = deref(args[0])
    raise Unmodelled("RangeInclusive internals: " + callee)


@model(r"^std::ops::RangeInclusive::<\w+>::new$|^RangeInclusive::<\w+>::new$", "a..=b")
def m_range_incl_new(eng, callee, args):
    a, b = args
    if not (isinstance(a, int) and isinstance(b, int)):
        raise Unmodelled("symbolic inclusive range")
    return PyIter(range(a, b + 1))


@model(r"^core::slice::<impl \[.*\]>::(chunks|chunks_exact)$", "slice::chunks")
def m_chunks(eng, callee, args):
    d = deref(args[0])
    items = d.items if isinstance(d, RVec) else d
    k = args[1]
    out = [RVec(items[i:i + k]) for i in range(0, len(items), k)]
    if callee.endswith("chunks_exact"):
        out = [c for c in out if len(c.items) == k]
    return PyIter([Ref.to(c) for c in out])


@model(r"^<(SmallRng|rand::prelude::SmallRng|rand::rngs::SmallRng) as Clone>::clone$", "SmallRng::clone copies the generator state")
def m_rng_clone(eng, callee, args):
    return clone_val(deref(args[0]))


@model(r"^<(T|F|f32|f64) as (num_traits::)?Float>::powi$|^std::(f32|f64)::<impl (f32|f64)>::powi$|^(f32|f64)::powi$", "powi with a concrete exponent = repeated product")
def m_powi(eng, callee, args):
    x = Num.of(deref(args[0]))
    n = deref(args[1])
    if not isinstance(n, int):
        raise Unmodelled("powi with symbolic exponent")
    r = Num(1)
    for _ in range(abs(n)):
        r = r * x
    return r if n >= 0 else Num(1) / r


@model(r"^<(T|F|f32|f64) as (num_traits::)?Float>::recip$|^std::(f32|f64)::<impl (f32|f64)>::recip$", "recip = 1/x")
def m_recip(eng, callee, args):
    return Num(1) / Num.of(deref(args[0]))


@model(r"^<(T|F|f32|f64) as (num_traits::)?Float>::mul_add$|^std::(f32|f64)::<impl (f32|f64)>::mul_add$", "mul_add = a*b + c (R-mode)")
def m_mul_add(eng, callee, args):
    a, b, c = [Num.of(deref(x)) for x in args]
    return a * b + c
