"""Engine M checks for C15: built-in densities and the proposal density (scalar / ndarray part)."""
import math
import random

import numpy as np
import z3

import mir_load
import mirsym
from mcheck import MUnit, approx_eq, fnum, ln, native, zval
from mirsym import Num, Opaque, Ref, RVec, Struct, pi_axioms, PI
from models_nd import ND, obj_array

R_ASSUME = ["R-mode: floats are mathematical reals (rounding outside the claim)",
            "ln is an uninterpreted function (congruence only); pi is a symbol with 3.14159 < pi < 3.1416"]


def _sq(x):
    return x * x


def spec_iso_logp(std, frm, to, pi):
    d = len(frm)
    s = None
    for f, t in zip(frm, to):
        term = _sq(t - f) / (2 * std * std)
        s = term if s is None else s + term
    return -s - (ln(2 * pi * std * std) * d) / 2


def c15_isotropic(out, tier, seed):
    eng = mir_load.load_engine()
    dims = [1, 2, 3] if tier == "quick" else [1, 2, 3, 4]
    u = MUnit(out, "C15", "c15_isotropic", eng,
              functions=["<IsotropicGaussian<T> as Proposal<T,T>>::logp", "<IsotropicGaussian<T> as Proposal<T,T>>::sample "
                         "(+ closure)", "<IsotropicGaussian<T> as Target<T,T>>::unnorm_logp"],
              bounds=["dimension in %s; std > 0, from, to arbitrary reals" % dims],
              assumptions=R_ASSUME + ["rand_distr::Normal(mean, std) draws mean + std*z, z ~ StandardNormal (its documented contract)"],
              out_of_scope=["that the draws z are standard normal (statistical)", "dimensions above %d" % dims[-1]])
    logp = eng.find_fn("<IsotropicGaussian as Proposal>::logp")
    sample = eng.find_fn("<IsotropicGaussian as Proposal>::sample")
    unnorm = eng.find_fn("<IsotropicGaussian as Target>::unnorm_logp")
    for d in dims:
        def run(ctx, d=d):
            std = ctx.fresh_real("std")
            ctx.assume(std.z() > 0)
            frm = [ctx.fresh_real("from") for _ in range(d)]
            to = [ctx.fresh_real("to") for _ in range(d)]
            me = Struct("IsotropicGaussian", eng.src_index["structs"]["IsotropicGaussian"], [std, Opaque("rng")])
            l1 = eng.call_fn(logp, [Ref.to(me), Ref.to(RVec(list(frm))), Ref.to(RVec(list(to)))])
            l2 = eng.call_fn(logp, [Ref.to(me), Ref.to(RVec(list(to))), Ref.to(RVec(list(frm)))])
            n0 = len(ctx.draws)
            smp = eng.call_fn(sample, [Ref.to(me), Ref.to(RVec(list(frm)))])
            zs = [x for k, x in ctx.draws[n0:]]
            un = eng.call_fn(unnorm, [Ref.to(me), Ref.to(RVec(list(to)))])
            return std, frm, to, l1, l2, smp, zs, un
        for ctx, res in eng.explore(run):
            u.paths += 1
            if isinstance(res, Exception):
                out.inconclusive.append("c15_isotropic d=%d: %r" % (d, res))
                continue
            std, frm, to, l1, l2, smp, zs, un = res
            inst = "dimension %d" % d

            def replay(model, std=std, frm=frm, to=to):
                return replay_iso(model, std, frm, to)
            u.equal(ctx, "isotropic proposal logp(from,to) is the normalised N(from, std^2 I) log-density at to",
                    l1, spec_iso_logp(std, frm, to, PI), replay, inst, pi_axioms())
            u.equal(ctx, "isotropic proposal logp is symmetric in its arguments", l1, l2, replay, inst)
            # (std's Zip polls the draw iterator first, so d+1 draws are consumed; only the first d are used)
            ok = isinstance(smp, RVec) and len(smp.items) == d and len(zs) >= d
            u.holds(ctx, "sample returns one coordinate per input coordinate", ok, None, inst)
            if ok:
                for i in range(d):
                    u.equal(ctx, "sample draws from + std*z per coordinate (the distribution logp is the density of)",
                            smp.items[i], frm[i] + std * zs[i], None, inst)
            s = None
            for t in to:
                s = t * t if s is None else s + t * t
            u.equal(ctx, "isotropic target unnorm_logp is -|x|^2/(2 std^2)", un, -(s / (2 * std * std)), None, inst)
    u.done()


def replay_iso(model, std, frm, to):
    rnd = random.Random(3)
    cands = [(fnum(zval(model, std.z())), [fnum(zval(model, x.z())) for x in frm], [fnum(zval(model, x.z())) for x in to])]
    d = len(frm)
    cands.append((1.0, [0.0] * d, [0.0] * d))
    for _ in range(3):
        cands.append((round(rnd.uniform(0.2, 3), 2), [round(rnd.uniform(-2, 2), 2) for _ in range(d)],
                      [round(rnd.uniform(-2, 2), 2) for _ in range(d)]))
    tried = []
    for s, f, t in cands:
        if not (s > 0):
            continue
        case = {"case": "iso_logp", "std": s, "from": f, "to": t}
        nat = native(case)
        want = spec_iso_logp(s, f, t, math.pi)
        bad = []
        for prof, res in nat.items():
            if isinstance(res, dict) and isinstance(res.get("logp_f64"), float):
                if not approx_eq(res["logp_f64"], want, 1e-9, 1e-9) or not approx_eq(res["logp_f64"], res["logp_f64_rev"], 1e-9, 1e-9):
                    bad.append(prof)
        tried.append({"case": case, "native": nat, "spec_logp": want})
        if bad:
            return True, {"case": case, "native": nat, "spec_logp": want, "reproduced_in": bad}
    return False, {"tried": tried[:2]}


# ------------------------------------------------------------------------------------------------
def c15_gaussian2d(out, tier, seed):
    eng = mir_load.load_engine()
    u = MUnit(out, "C15", "c15_gaussian2d", eng,
              functions=["<Gaussian2D<T> as Normalized<T,T>>::logp", "<Gaussian2D<T> as Target<T,T>>::unnorm_logp",
                         "DiffableGaussian2D::<T>::new"],
              bounds=["arbitrary mean, covariance entries with det > 0, arbitrary point"],
              assumptions=R_ASSUME, out_of_scope=["SPD-ness beyond det > 0", "f32 accuracy"])
    g_logp = eng.find_fn("<Gaussian2D as Normalized>::logp")
    g_un = eng.find_fn("<Gaussian2D as Target>::unnorm_logp")
    d_new = eng.find_fn("DiffableGaussian2D::new")

    def run(ctx):
        mu = [ctx.fresh_real("mu") for _ in range(2)]
        a, b, c, d = [ctx.fresh_real("cov") for _ in range(4)]
        x = [ctx.fresh_real("x") for _ in range(2)]
        det = a * d - b * c
        ctx.assume(det.z() > 0)
        g = Struct("Gaussian2D", eng.src_index["structs"]["Gaussian2D"],
                   [ND(obj_array(list(mu), (2,))), ND(obj_array([a, b, c, d], (2, 2)))])
        lp = eng.call_fn(g_logp, [Ref.to(g), Ref.to(RVec(list(x)))])
        un = eng.call_fn(g_un, [Ref.to(g), Ref.to(RVec(list(x)))])
        dg = eng.call_fn(d_new, [[mu[0], mu[1]], [[a, b], [c, d]]])
        return mu, (a, b, c, d), x, det, lp, un, dg
    for ctx, res in eng.explore(run):
        u.paths += 1
        if isinstance(res, Exception):
            out.inconclusive.append("c15_gaussian2d: %r" % (res,))
            continue
        mu, (a, b, c, d), x, det, lp, un, dg = res
        dx, dy = x[0] - mu[0], x[1] - mu[1]
        # (x-mu)^T Sigma^-1 (x-mu) with Sigma^-1 = [[d,-b],[-c,a]]/det
        quad = (dx * (d * dx - c * dy) + dy * (a * dy - b * dx)) / det
        ax = pi_axioms()

        def replay(model):
            return replay_g2d(model, mu, (a, b, c, d), x)
        u.equal(ctx, "Gaussian2D unnormalised log-density is -1/2 (x-mu)^T Sigma^-1 (x-mu)", un, -(quad / 2), replay, None, ax)
        u.equal(ctx, "Gaussian2D normalised and unnormalised forms differ by the constant -ln(2 pi) - 1/2 ln|det Sigma|",
                lp - un, -ln(2 * PI) - ln(det) / 2, replay, None, ax + [det.z() > 0])
        inv = dg.get("inv_cov")
        want_inv = [[d / det, -(b / det)], [-(c / det), a / det]]
        for i in range(2):
            for j in range(2):
                u.equal(ctx, "DiffableGaussian2D::new stores the inverse covariance", inv[i][j], want_inv[i][j], None, None, ax)
        u.equal(ctx, "DiffableGaussian2D::new stores ln det(Sigma)", dg.get("logdet_cov"), ln(det), None, None, ax)
        u.equal(ctx, "DiffableGaussian2D::new stores the 2-D normalising constant -(2 ln(2 pi) + ln det)/2",
                dg.get("norm_const"), -(2 * ln(2 * PI) + ln(det)) / 2, None, None, ax)
    u.done()


def replay_g2d(model, mu, cov, x):
    rnd = random.Random(5)
    cands = [([fnum(zval(model, v.z())) for v in mu], [fnum(zval(model, v.z())) for v in cov], [fnum(zval(model, v.z())) for v in x])]
    cands.append(([0.0, 1.0], [4.0, 2.0, 2.0, 3.0], [0.5, -0.5]))
    tried = []
    for m, c, xx in cands:
        det = c[0] * c[3] - c[1] * c[2]
        if det <= 0:
            continue
        case = {"case": "gaussian2d", "mean": m, "cov": c, "x": xx}
        nat = native(case)
        dx, dy = xx[0] - m[0], xx[1] - m[1]
        quad = (dx * (c[3] * dx - c[2] * dy) + dy * (c[0] * dy - c[1] * dx)) / det
        want_un = -quad / 2
        want_lp = want_un - math.log(2 * math.pi) - 0.5 * math.log(det)
        bad = []
        for prof, res in nat.items():
            if isinstance(res, dict) and isinstance(res.get("logp"), float):
                if not approx_eq(res["logp"], want_lp, 1e-9, 1e-9) or not approx_eq(res["unnorm"], want_un, 1e-9, 1e-9):
                    bad.append(prof)
        tried.append({"case": case, "native": nat, "spec": [want_lp, want_un]})
        if bad:
            return True, {"case": case, "native": nat, "spec_logp_unnorm": [want_lp, want_un], "reproduced_in": bad}
    return False, {"tried": tried[:2]}
