"""Engine M checks for C15: built-in densities and the proposal density (scalar / ndarray part)."""
import math
import random

import numpy as np
import z3

import mir_load
import mirsym
from mcheck import MUnit, approx_eq, fnum, ln, native, zval
from mirsym import Num, Opaque, Ref, RVec, Struct, pi_axioms, PI
from models_nd import ND, obj_array

R_ASSUME = ["R-mode: floats are mathematical reals (rounding outside the claim)",
            "ln is an uninterpreted function (congruence only); pi is a symbol with 3.14159 < pi < 3.1416"]


def _sq(x):
    return x * x


def spec_iso_logp(std, frm, to, pi):
    d = len(frm)
    s = None
    for f, t in zip(frm, to):
        term = _sq(t - f) / (2 * std * std)
        s = term if s is None else s + term
    return -s - (ln(2 * pi * std * std) * d) / 2


def c15_isotropic(out, tier, seed):
    eng = mir_load.load_engine()
    dims = [1, 2, 3] if tier == "quick" else [1, 2, 3, 4]
    u = MUnit(out, "C15", "c15_isotropic", eng,
              functions=["<IsotropicGaussian<T> as Proposal<T,T>>::logp", "<IsotropicGaussian<T> as Proposal<T,T>>::sample "
                         "(+ closure)", "<IsotropicGaussian<T> as Target<T,T>>::unnorm_logp"],
              bounds=["dimension in %s; std > 0, from, to arbitrary reals" % dims],
              assumptions=R_ASSUME + ["rand_distr::Normal(mean, std) draws mean + std*z, z ~ StandardNormal (its documented contract)"],
              out_of_scope=["that the draws z are standard normal (statistical)", "dimensions above %d" % dims[-1]])
    logp = eng.find_fn("<IsotropicGaussian as Proposal>::logp")
    sample = eng.find_fn("<IsotropicGaussian as Proposal>::sample")
    unnorm = eng.find_fn("<IsotropicGaussian as Target>::unnorm_logp")
    for d in dims:
        def run(ctx, d=d):
            std = ctx.fresh_real("std")
            ctx.assume(std.z() > 0)
            frm = [ctx.fresh_real("from") for _ in range(d)]
            to = [ctx.fresh_real("to") for _ in range(d)]
            me = Struct("IsotropicGaussian", eng.src_index["structs"]["IsotropicGaussian"], [std, Opaque("rng")])
            l1 = eng.call_fn(logp, [Ref.to(me), Ref.to(RVec(list(frm))), Ref.to(RVec(list(to)))])
            l2 = eng.call_fn(logp, [Ref.to(me), Ref.to(RVec(list(to))), Ref.to(RVec(list(frm)))])
            n0 = len(ctx.draws)
            smp = eng.call_fn(sample, [Ref.to(me), Ref.to(RVec(list(frm)))])
            zs = [x for k, x in ctx.draws[n0:]]
            un = eng.call_fn(unnorm, [Ref.to(me), Ref.to(RVec(list(to)))])
            return std, frm, to, l1, l2, smp, zs, un
        for ctx, res in eng.explore(run):
            u.paths += 1
            if isinstance(res, Exception):
                out.inconclusive.append("c15_isotropic d=%d: %r" % (d, res))
                continue
            std, frm, to, l1, l2, smp, zs, un = res
            inst = "dimension %d" % d

            def replay(model, std=std, frm=frm, to=to):
                return replay_iso(model, std, frm, to)
            u.equal(ctx, "isotropic proposal logp(from,to) is the normalised N(from, std^2 I) log-density at to",
                    l1, spec_iso_logp(std, frm, to, PI), replay, inst, pi_axioms())
            u.equal(ctx, "isotropic proposal logp is symmetric in its arguments", l1, l2, replay, inst)
            # (std's Zip polls the draw iterator first, so d+1 draws are consumed; only the first d are used)
            ok = isinstance(smp, RVec) and len(smp.items) == d and len(zs) >= d
            def replay_smp(model, std=std, frm=frm):
                return replay_iso_sample(model, std, frm)
            u.holds(ctx, "sample returns one coordinate per input coordinate", ok, replay_smp, inst)
            if ok:
                for i in range(d):
                    u.equal(ctx, "sample draws from + std*z per coordinate (the distribution logp is the density of)",
                            smp.items[i], frm[i] + std * zs[i], replay_smp, inst)
            s = None
            for t in to:
                s = t * t if s is None else s + t * t
            u.equal(ctx, "isotropic target unnorm_logp is -|x|^2/(2 std^2)", un, -(s / (2 * std * std)), replay, inst)
    u.done()


def replay_iso(model, std, frm, to):
    rnd = random.Random(3)
    cands = [(fnum(zval(model, std.z())), [fnum(zval(model, x.z())) for x in frm], [fnum(zval(model, x.z())) for x in to])]
    d = len(frm)
    cands.append((1.0, [0.0] * d, [0.0] * d))
    for _ in range(3):
        cands.append((round(rnd.uniform(0.2, 3), 2), [round(rnd.uniform(-2, 2), 2) for _ in range(d)],
                      [round(rnd.uniform(-2, 2), 2) for _ in range(d)]))
    tried = []
    for s, f, t in cands:
        if not (s > 0):
            continue
        case = {"case": "iso_logp", "std": s, "from": f, "to": t}
        nat = native(case)
        want = spec_iso_logp(s, f, t, math.pi)
        bad = []
        for prof, res in nat.items():
            if isinstance(res, dict) and isinstance(res.get("logp_f64"), float):
                want_un = -sum(x * x for x in t) / (2 * s * s)
                if not approx_eq(res["logp_f64"], want, 1e-9, 1e-9) or not approx_eq(res["logp_f64"], res["logp_f64_rev"], 1e-9, 1e-9):
                    bad.append(prof)
                elif isinstance(res.get("unnorm_f64"), float) and not approx_eq(res["unnorm_f64"], want_un, 1e-9, 1e-9):
                    bad.append(prof)
        tried.append({"case": case, "native": nat, "spec_logp": want})
        if bad:
            return True, {"case": case, "native": nat, "spec_logp": want, "reproduced_in": bad}
    return False, {"tried": tried[:2]}


# ------------------------------------------------------------------------------------------------
def c15_gaussian2d(out, tier, seed):
    eng = mir_load.load_engine()
    u = MUnit(out, "C15", "c15_gaussian2d", eng,
              functions=["<Gaussian2D<T> as Normalized<T,T>>::logp", "<Gaussian2D<T> as Target<T,T>>::unnorm_logp",
                         "DiffableGaussian2D::<T>::new"],
              bounds=["arbitrary mean, arbitrary symmetric positive definite covariance (a > 0, b = c, det > 0), arbitrary point"],
              assumptions=R_ASSUME, out_of_scope=["non-symmetric 'covariances' (outside the property's domain)", "f32 accuracy"])
    g_logp = eng.find_fn("<Gaussian2D as Normalized>::logp")
    g_un = eng.find_fn("<Gaussian2D as Target>::unnorm_logp")
    d_new = eng.find_fn("DiffableGaussian2D::new")

    def run(ctx):
        mu = [ctx.fresh_real("mu") for _ in range(2)]
        a, b, c, d = [ctx.fresh_real("cov") for _ in range(4)]
        x = [ctx.fresh_real("x") for _ in range(2)]
        det = a * d - b * c
        ctx.assume(det.z() > 0)
        ctx.assume(b.z() == c.z())  # the property quantifies over SPD covariances: symmetric, a > 0, det > 0
        ctx.assume(a.z() > 0)
        g = Struct("Gaussian2D", eng.src_index["structs"]["Gaussian2D"],
                   [ND(obj_array(list(mu), (2,))), ND(obj_array([a, b, c, d], (2, 2)))])
        lp = eng.call_fn(g_logp, [Ref.to(g), Ref.to(RVec(list(x)))])
        un = eng.call_fn(g_un, [Ref.to(g), Ref.to(RVec(list(x)))])
        dg = eng.call_fn(d_new, [[mu[0], mu[1]], [[a, b], [c, d]]])
        return mu, (a, b, c, d), x, det, lp, un, dg
    for ctx, res in eng.explore(run):
        u.paths += 1
        if isinstance(res, Exception):
            out.inconclusive.append("c15_gaussian2d: %r" % (res,))
            continue
        mu, (a, b, c, d), x, det, lp, un, dg = res
        dx, dy = x[0] - mu[0], x[1] - mu[1]
        # (x-mu)^T Sigma^-1 (x-mu) with Sigma^-1 = [[d,-b],[-c,a]]/det
        quad = (dx * (d * dx - c * dy) + dy * (a * dy - b * dx)) / det
        ax = pi_axioms()

        def replay(model):
            return replay_g2d(model, mu, (a, b, c, d), x)
        u.equal(ctx, "Gaussian2D unnormalised log-density is -1/2 (x-mu)^T Sigma^-1 (x-mu)", un, -(quad / 2), replay, None, ax)
        u.equal(ctx, "Gaussian2D normalised and unnormalised forms differ by the constant -ln(2 pi) - 1/2 ln|det Sigma|",
                lp - un, -ln(2 * PI) - ln(det) / 2, replay, None, ax + [det.z() > 0])
        def replay_new(model):
            return replay_diffable_new(model, mu, (a, b, c, d))
        inv = dg.get("inv_cov")
        want_inv = [[d / det, -(b / det)], [-(c / det), a / det]]
        for i in range(2):
            for j in range(2):
                u.equal(ctx, "DiffableGaussian2D::new stores the inverse covariance", inv[i][j], want_inv[i][j], replay_new, None, ax)
        u.equal(ctx, "DiffableGaussian2D::new stores ln det(Sigma)", dg.get("logdet_cov"), ln(det), replay_new, None, ax)
        u.equal(ctx, "DiffableGaussian2D::new stores the 2-D normalising constant -(2 ln(2 pi) + ln det)/2",
                dg.get("norm_const"), -(2 * ln(2 * PI) + ln(det)) / 2, replay_new, None, ax)
    u.done()


def replay_iso_sample(model, std, frm):
    cands = []
    try:
        cands.append((fnum(zval(model, std.z())), [fnum(zval(model, v.z())) for v in frm]))
    except Exception:
        pass
    cands += [(2.5, [0.5 + i for i in range(len(frm))]), (0.3, [-1.0 * i for i in range(len(frm))])]
    tried = []
    for sd, fr in cands:
        if not sd > 0:
            continue
        case = {"case": "iso_sample", "std": sd, "from": fr, "seed": 9}
        nat = native(case)
        bad = []
        for prof, res in nat.items():
            if not isinstance(res, dict) or "sample" not in res:
                if isinstance(res, dict) and res.get("panic"):
                    bad.append(prof)
                continue
            got, want = res["sample"], res["want"]
            if len(got) != len(fr) or any(not approx_eq(float(g), float(w), 1e-12, 1e-12) for g, w in zip(got, want)) or not res.get("same_seed_same_draw"):
                bad.append(prof)
        tried.append({"case": case, "native": nat})
        if bad:
            return True, {"case": case, "native": nat, "reproduced_in": bad}
    return False, {"tried": tried[:2]}


def replay_diffable_new(model, mu, cov):
    cands = []
    try:
        cands.append(([fnum(zval(model, v.z())) for v in mu], [fnum(zval(model, v.z())) for v in cov]))
    except Exception:
        pass
    cands += [([0.0, 1.0], [4.0, 2.0, 2.0, 3.0]), ([1.0, -1.0], [0.5, -0.2, -0.2, 2.0])]
    tried = []
    for m, c in cands:
        det = c[0] * c[3] - c[1] * c[2]
        if det <= 0 or c[1] != c[2] or c[0] <= 0:
            continue
        case = {"case": "diffable_new", "mean": m, "cov": c}
        nat = native(case)
        want_inv = [c[3] / det, -c[1] / det, -c[2] / det, c[0] / det]
        want_ld = math.log(det)
        want_nc = -(2 * math.log(2 * math.pi) + math.log(det)) / 2
        bad = []
        for prof, res in nat.items():
            if not isinstance(res, dict) or "inv_cov" not in res:
                if isinstance(res, dict) and res.get("panic"):
                    bad.append(prof)
                continue
            try:
                ok = all(approx_eq(float(g), w, 1e-9, 1e-12) for g, w in zip(res["inv_cov"], want_inv)) and approx_eq(
                    float(res["logdet_cov"]), want_ld, 1e-9, 1e-12) and approx_eq(float(res["norm_const"]), want_nc, 1e-9, 1e-12)
            except (TypeError, ValueError):
                ok = False
            if not ok:
                bad.append(prof)
        tried.append({"case": case, "native": nat, "spec": {"inv_cov": want_inv, "logdet_cov": want_ld, "norm_const": want_nc}})
        if bad:
            return True, {"case": case, "native": nat, "spec": tried[-1]["spec"], "reproduced_in": bad}
    return False, {"tried": tried[:2]}


def replay_g2d(model, mu, cov, x):
    rnd = random.Random(5)
    cands = [([fnum(zval(model, v.z())) for v in mu], [fnum(zval(model, v.z())) for v in cov], [fnum(zval(model, v.z())) for v in x])]
    cands.append(([0.0, 1.0], [4.0, 2.0, 2.0, 3.0], [0.5, -0.5]))
    tried = []
    for m, c, xx in cands:
        det = c[0] * c[3] - c[1] * c[2]
        if det <= 0:
            continue
        case = {"case": "gaussian2d", "mean": m, "cov": c, "x": xx}
        nat = native(case)
        dx, dy = xx[0] - m[0], xx[1] - m[1]
        quad = (dx * (c[3] * dx - c[2] * dy) + dy * (c[0] * dy - c[1] * dx)) / det
        want_un = -quad / 2
        want_lp = want_un - math.log(2 * math.pi) - 0.5 * math.log(det)
        bad = []
        for prof, res in nat.items():
            if isinstance(res, dict) and isinstance(res.get("logp"), float):
                if not approx_eq(res["logp"], want_lp, 1e-9, 1e-9) or not approx_eq(res["unnorm"], want_un, 1e-9, 1e-9):
                    bad.append(prof)
        tried.append({"case": case, "native": nat, "spec": [want_lp, want_un]})
        if bad:
            return True, {"case": case, "native": nat, "spec_logp_unnorm": [want_lp, want_un], "reproduced_in": bad}
    return False, {"tried": tried[:2]}


# ------------------------------------------------------------------------------------------------
# tensor-based targets (burn API modelled): batched and single-point forms against closed forms
# ------------------------------------------------------------------------------------------------
def replay_targets(model=None):
    rnd = random.Random(17)
    tried = []
    for k in range(4):
        mean = [round(rnd.uniform(-1, 1), 2), round(rnd.uniform(-1, 1), 2)]
        cov = [[4.0, 2.0, 2.0, 3.0], [1.5, 0.3, 0.7, 2.0], [2.0, -0.5, 0.4, 1.0], [1.0, 0.0, 0.0, 1.0]][k]
        pts = [[round(rnd.uniform(-2, 2), 2), round(rnd.uniform(-2, 2), 2)] for _ in range(3)]
        ndp = [[round(rnd.uniform(-1.5, 1.5), 2) for _ in range(3)] for _ in range(2)]
        a, b = [1.0, 0.5, 2.0, 1.0][k], [100.0, 3.0, 10.0, 1.0][k]
        case = {"case": "targets_eval", "mean": mean, "cov": cov, "points": pts, "nd_points": ndp, "a": a, "b": b}
        nat = native(case)
        det = cov[0] * cov[3] - cov[1] * cov[2]
        wg, wr, wgrad = [], [], []
        for (x, y) in pts:
            dx, dy = x - mean[0], y - mean[1]
            quad = (dx * (cov[3] * dx - cov[2] * dy) + dy * (cov[0] * dy - cov[1] * dx)) / det
            wg.append(-(2 * math.log(2 * math.pi) + math.log(det)) / 2 - quad / 2)
            wr.append(-((a - x) ** 2 + b * (y - x * x) ** 2))
            i00, i01, i10, i11 = cov[3] / det, -cov[1] / det, -cov[2] / det, cov[0] / det
            wgrad.append([-(i00 * dx + 0.5 * (i01 + i10) * dy), -(0.5 * (i01 + i10) * dx + i11 * dy)])
        wnd = [-sum(100 * (p[i + 1] - p[i] ** 2) ** 2 + (1 - p[i]) ** 2 for i in range(len(p) - 1)) for p in ndp]
        bad = []
        for prof, r in nat.items():
            if not isinstance(r, dict) or "gauss_batch" not in r:
                if isinstance(r, dict) and r.get("panic"):
                    bad.append(prof)
                continue
            f = lambda v: [float(str(z).replace("NaN", "nan")) for z in v]  # noqa: E731
            ok = all(approx_eq(g, w, 1e-5, 1e-5) for g, w in zip(f(r["gauss_batch"]), wg)) and \
                all(approx_eq(g, w, 1e-5, 1e-5) for g, w in zip(f(r["gauss_single"]), wg)) and \
                all(approx_eq(g, w, 1e-5, 1e-5) for g, w in zip(f(r["rosen_batch"]), wr)) and \
                all(approx_eq(g, w, 1e-5, 1e-5) for g, w in zip(f(r["rosen_single"]), wr)) and \
                all(approx_eq(g, w, 1e-5, 1e-5) for g, w in zip(f(r["rosen_nd"]), wnd)) and \
                all(approx_eq(g, w, 1e-5, 1e-5) for gg, ww in zip(r["gauss_grad"], wgrad) for g, w in zip(f(gg), ww)) and \
                len(r["gauss_batch"]) == len(pts)
            if not ok:
                bad.append(prof)
        tried.append({"case": case, "native": nat, "spec": {"gauss": wg, "rosen": wr, "rosen_nd": wnd, "gauss_grad": wgrad}})
        if bad:
            return True, dict(tried[-1], reproduced_in=bad)
    return False, {"tried": tried[:1]}


def c15_tensor_targets(out, tier, seed):
    from models_burn import Ten
    eng = mir_load.load_engine()
    mirsym.MUL_MODE["mode"] = "exact"
    batches = [1, 2] if tier == "quick" else [1, 2, 3]
    u = MUnit(out, "C15", "c15_tensor_targets", eng,
              functions=["<DiffableGaussian2D as BatchedGradientTarget>::unnorm_logp_batch", "<DiffableGaussian2D as GradientTarget>::unnorm_logp",
                         "<Rosenbrock2D as BatchedGradientTarget>::unnorm_logp_batch", "<Rosenbrock2D as GradientTarget>::unnorm_logp",
                         "<RosenbrockND as BatchedGradientTarget>::unnorm_logp_batch", "GradientTarget::unnorm_logp_and_grad (default method)",
                         "DiffableGaussian2D::new"],
              bounds=["batch sizes %s; RosenbrockND dimension 2..3 (4 thorough); all parameters and points arbitrary reals (det > 0)" % batches],
              assumptions=R_ASSUME + ["burn tensor kernels follow their documented element-wise / broadcasting / matmul semantics (modelled)",
                                      "autodiff is modelled by provenance: x.grad(&y.backward()) is the gradient of y w.r.t. x iff y was computed from x"],
              out_of_scope=["that burn's autodiff returns the true gradient", "f32 accuracy of tensor kernels", "batch sizes / dimensions beyond the listed ones"])
    g_new = eng.find_fn("DiffableGaussian2D::new")
    g_batch = eng.find_fn("<DiffableGaussian2D as BatchedGradientTarget>::unnorm_logp_batch")
    g_single = eng.find_fn("<DiffableGaussian2D as GradientTarget>::unnorm_logp")
    r_batch = eng.find_fn("<Rosenbrock2D as BatchedGradientTarget>::unnorm_logp_batch")
    r_single = eng.find_fn("<Rosenbrock2D as GradientTarget>::unnorm_logp")
    nd_batch = eng.find_fn("<RosenbrockND as BatchedGradientTarget>::unnorm_logp_batch")
    ax = pi_axioms()
    for n in batches:
        def run(ctx, n=n):
            mu = [ctx.fresh_real("mu") for _ in range(2)]
            a, b, c, d = [ctx.fresh_real("cov") for _ in range(4)]
            det = a * d - b * c
            ctx.assume(det.z() > 0)
            X = [[ctx.fresh_real("x") for _ in range(2)] for _ in range(n)]
            g = eng.call_fn(g_new, [[mu[0], mu[1]], [[a, b], [c, d]]])
            lb = eng.call_fn(g_batch, [Ref.to(g), Ten(obj_array([v for r in X for v in r], (n, 2)))])
            ls = [eng.call_fn(g_single, [Ref.to(g), Ten(obj_array(list(r), (2,)))]) for r in X]
            ra, rb = ctx.fresh_real("ra"), ctx.fresh_real("rb")
            ros = Struct("Rosenbrock2D", eng.src_index["structs"]["Rosenbrock2D"], [ra, rb])
            rbatch = eng.call_fn(r_batch, [Ref.to(ros), Ten(obj_array([v for r in X for v in r], (n, 2)))])
            rsing = [eng.call_fn(r_single, [Ref.to(ros), Ten(obj_array(list(r), (2,)))]) for r in X]
            return mu, (a, b, c, d), det, X, g, lb, ls, (ra, rb), rbatch, rsing
        for ctx, res in eng.explore(run):
            u.paths += 1
            if isinstance(res, Exception):
                out.inconclusive.append("c15_tensor_targets batch=%d: %r" % (n, res))
                continue
            mu, (a, b, c, d), det, X, g, lb, ls, (ra, rb), rbatch, rsing = res
            inst = "batch size %d" % n
            u.holds(ctx, "batched evaluations return one value per row", tuple(lb.a.shape) == (n,) and tuple(rbatch.a.shape) == (n,), replay_targets, inst)
            for r in range(n):
                dx, dy = X[r][0] - mu[0], X[r][1] - mu[1]
                quad = (dx * (d * dx - c * dy) + dy * (a * dy - b * dx)) / det
                want = -(2 * ln(2 * PI) + ln(det)) / 2 - quad / 2
                if tuple(lb.a.shape) == (n,):
                    u.equal(ctx, "DiffableGaussian2D batch row r is the 2-D Gaussian log-density of row r", lb.a[r], want, replay_targets, inst, ax + [det.z() > 0])
                u.equal(ctx, "DiffableGaussian2D single-point evaluation agrees with the batched one row by row", ls[r].a.reshape(-1)[0],
                        lb.a[r] if tuple(lb.a.shape) == (n,) else want, replay_targets, inst, ax + [det.z() > 0])
                x, y = X[r]
                rw = -((ra - x) * (ra - x) + rb * ((y - x * x) * (y - x * x)))
                if tuple(rbatch.a.shape) == (n,):
                    u.equal(ctx, "Rosenbrock2D batch row r is -((a-x)^2 + b (y-x^2)^2)", rbatch.a[r], rw, replay_targets, inst)
                u.equal(ctx, "Rosenbrock2D single-point evaluation agrees with the closed form", rsing[r].a.reshape(-1)[0], rw, replay_targets, inst)
    dims = [2, 3] if tier == "quick" else [2, 3, 4]
    for dim in dims:
        def run2(ctx, dim=dim):
            X = [[ctx.fresh_real("x") for _ in range(dim)] for _ in range(2)]
            r = eng.call_fn(nd_batch, [Ref.to(Struct("RosenbrockND", [], [])), Ten(obj_array([v for row in X for v in row], (2, dim)))])
            return X, r
        for ctx, res in eng.explore(run2):
            u.paths += 1
            if isinstance(res, Exception):
                out.inconclusive.append("c15_tensor_targets RosenbrockND dim=%d: %r" % (dim, res))
                continue
            X, r = res
            for k in range(2):
                s = None
                for i in range(dim - 1):
                    t = (X[k][i + 1] - X[k][i] * X[k][i])
                    term = t * t * 100 + (Num(1) - X[k][i]) * (Num(1) - X[k][i])
                    s = term if s is None else s + term
                u.equal(ctx, "RosenbrockND row is -sum_i [100 (x_{i+1} - x_i^2)^2 + (1 - x_i)^2]", r.a[k], -s, replay_targets, "dim %d" % dim)
    # default method wiring: value and gradient of the same call at the same point
    LP = z3.Function("LPsingle", z3.RealSort(), z3.RealSort(), z3.RealSort())
    G = [z3.Function("dLPsingle_%d" % i, z3.RealSort(), z3.RealSort(), z3.RealSort()) for i in range(2)]

    def unnorm(e, callee, args):
        pos = args[1]
        while isinstance(pos, Ref):
            pos = pos.get()
        xs = [Num.of(v).z() for v in pos.a.reshape(-1)]

        def gradfn(arr):
            zs = [Num.of(v).z() for v in arr.reshape(-1)]
            return obj_array([Num(g(*zs)) for g in G], (2,))
        return Ten(obj_array([Num(LP(*xs))], (1,)), prov=("logp", pos.a.copy(), gradfn))
    eng.override(r"^<Self as GradientTarget<T, B>>::unnorm_logp$", unnorm)

    def run3(ctx):
        x = [ctx.fresh_real("x") for _ in range(2)]
        r = eng.call_fn("GradientTarget::unnorm_logp_and_grad", [Ref.to(Opaque("target")), Ten(obj_array(list(x), (2,)))])
        return x, r
    for ctx, res in eng.explore(run3):
        u.paths += 1
        if isinstance(res, Exception):
            u.holds(ctx, "unnorm_logp_and_grad evaluates the target at the given point and differentiates that very evaluation", False, replay_targets, repr(res)[:120])
            continue
        x, r = res
        val, grad = r.fields
        zs = [v.z() for v in x]
        u.equal(ctx, "unnorm_logp_and_grad returns the target's log-density at the given point", val.a.reshape(-1)[0], Num(LP(*zs)), replay_targets)
        for i in range(2):
            u.equal(ctx, "the gradient handed to HMC/NUTS is the gradient of that log-density at that point", grad.a.reshape(-1)[i], Num(G[i](*zs)), replay_targets)
    u.done()
