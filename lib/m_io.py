"""Engine M check for C17: the save_* functions of src/io (feature-gated) executed symbolically up to the library
boundary. The csv / arrow / parquet writers are *recorders*: what reaches them (header, records, schema, columns,
finish/close) is compared with the layout the property states. The bytes on disk and the third-party readers are not
encoded; the native replay does the real round trip (write with the real function, read back with the csv / arrow-ipc
/ parquet readers)."""
import json
import os
import subprocess

import numpy as np
import z3

import mir_load
from common import CACHE, REPO, VERIF, env_offline, log
from mcheck import MUnit
from mirsym import (Enum, Err, Num, Ok, Opaque, PanicPath, Ref, RVec, StrLit, Struct, Tuple, Unmodelled, zbool)
from models_burn import Ten
from models_core import PyIter, deref
from models_nd import ND, obj_array

FEATURES = "csv,arrow,parquet"


class Disp:
    """`Display` rendering of a (symbolic) value with default formatting options: an injective function of the value"""

    def __init__(self, v, spec=None):
        self.v, self.spec = v, spec

    def __repr__(self):
        return "Disp(%r%s)" % (self.v, "" if self.spec is None else ", %r" % (self.spec,))


class Pieces:
    def __init__(self, parts):
        self.parts = parts

    def __repr__(self):
        return "Pieces(%r)" % (self.parts,)


def as_text(v):
    """python str for concrete strings / integers, Disp for symbolic numbers"""
    while isinstance(v, Ref):
        v = v.get()
    if isinstance(v, StrLit):
        return v.value
    if isinstance(v, (str, Disp, Pieces)):
        return v
    if isinstance(v, bool):
        return "true" if v else "false"
    if isinstance(v, int):
        return str(v)
    if isinstance(v, Num):
        return Disp(v)
    raise Unmodelled("to_string of %r" % (v,))


class FmtArg:
    def __init__(self, kind, v):
        self.kind, self.v = kind, v


class FmtArgs:
    def __init__(self, template, args):
        self.template, self.args = template, args


def render(fa):
    """core::fmt::write over the template byte code of rustc's fmt::Arguments (see library/core/src/fmt/mod.rs)"""
    t = fa.template
    if isinstance(t, str):
        return t
    parts = []
    i = 0
    arg_index = 0
    while True:
        n = t[i]
        i += 1
        if n == 0:
            break
        if n < 0x80:
            parts.append(t[i:i + n].decode())
            i += n
        elif n == 0x80:
            ln = int.from_bytes(t[i:i + 2], "little")
            i += 2
            parts.append(t[i:i + ln].decode())
            i += ln
        elif n == 0xC0:
            a = fa.args[arg_index]
            arg_index += 1
            if a.kind != "display":
                parts.append(Disp(a.v, ("debug",)))
            else:
                parts.append(as_text(a.v))
        else:
            flags = width = prec = None
            if n & 1:
                flags = int.from_bytes(t[i:i + 4], "little")
                i += 4
            if n & 2:
                width = int.from_bytes(t[i:i + 2], "little")
                i += 2
            if n & 4:
                prec = int.from_bytes(t[i:i + 2], "little")
                i += 2
            if n & 8:
                arg_index = int.from_bytes(t[i:i + 2], "little")
                i += 2
            a = fa.args[arg_index]
            arg_index += 1
            parts.append(Disp(a.v, (a.kind, n, flags, width, prec)))
    if all(isinstance(p, str) for p in parts):
        return "".join(parts)
    if len(parts) == 1:
        return parts[0]
    return Pieces(parts)


class Recorder:
    """what one save call handed to the writer library"""

    def __init__(self):
        self.created = []      # file names passed to File::create
        self.create_ok = None
        self.records = []      # csv records (lists of text)
        self.flushed = False
        self.schema = None     # list of (name, datatype, nullable)
        self.batches = []      # list of (schema, columns) written
        self.finished = False
        self.flush_ok = None   # result of the final flush / finish / close (None = never called)


def install(eng, rec_box):
    """rec_box: dict with key 'rec' -> Recorder of the current path"""
    R = lambda: rec_box["rec"]  # noqa: E731
    ov = eng.override

    def m_create(e, callee, args):
        r = R()
        r.created.append(args[0])
        ok = e.ctx.branch(e.ctx.fresh_bool("create_ok"), "File::create")
        r.create_ok = ok
        return Ok(Struct("File", ["id"], [len(r.created)])) if ok else Err(Opaque("io::Error"))
    ov(r"^std::fs::File::create::<", m_create)

    # --- strings and formatting -------------------------------------------------------------------
    ov(r"^<.* as ToString>::to_string$", lambda e, c, a: as_text(a[0]))
    ov(r"^core::fmt::rt::Argument::<'_>::new_display::<", lambda e, c, a: FmtArg("display", deref(a[0])))
    ov(r"^core::fmt::rt::Argument::<'_>::new_debug::<", lambda e, c, a: FmtArg("debug", deref(a[0])))
    ov(r"^core::fmt::rt::Argument::<'_>::new_", lambda e, c, a: FmtArg(c.split("::new_")[1].split("::")[0], deref(a[0])))

    def m_args_new(e, callee, args):
        t = deref(args[0])
        if isinstance(t, StrLit):
            t = t.value
        if t is None:
            raise Unmodelled("format template not decoded")
        arr = deref(args[1]) if len(args) > 1 else []
        return FmtArgs(t, list(arr.items if isinstance(arr, RVec) else arr))
    ov(r"^Arguments::<'_>::new::<|^std::fmt::Arguments::<'_>::new::<|^core::fmt::Arguments::<'_>::new::<", m_args_new)
    ov(r"^Arguments::<'_>::from_str|^Arguments::<'_>::new_const", lambda e, c, a: FmtArgs(as_text(a[0]), []))
    ov(r"^std::fmt::format$|^alloc::fmt::format$|^format$", lambda e, c, a: render(a[0]))
    ov(r"^must_use::<", lambda e, c, a: a[0])
    ov(r"^<std::string::String as Clone>::clone$|^<String as Clone>::clone$", lambda e, c, a: deref(a[0]))
    ov(r"^<std::string::String as From<&str>>::from$|^<String as From<&str>>::from$|^<str as ToOwned>::to_owned$"
       r"|^core::str::<impl str>::to_owned$|^std::string::String::from$", lambda e, c, a: as_text(a[0]))
    ov(r"^<std::string::String as From<std::string::String>>::from$|^<String as Into<String>>::into$", lambda e, c, a: a[0])
    ov(r"as From<std::string::String>>::from$|as From<String>>::from$|as From<&str>>::from$", lambda e, c, a: Opaque("Box<dyn Error>"))

    # --- vec![a, b] as lowered by this nightly ----------------------------------------------------
    def m_new_uninit(e, callee, args):
        md = Struct("MaybeDangling", ["0"], [None])
        mu = Struct("MaybeUninit", ["uninit", "value"], [Tuple([]), Struct("ManuallyDrop", ["0"], [md])])
        cell = [mu]
        return Struct("Box", ["0", "1"], [Struct("Unique", ["0", "1"], [Ref(cell, 0, True), Opaque("PhantomData")]), Opaque("Global")])
    ov(r"^Box::<\[.*\]>::new_uninit$|^std::boxed::Box::<\[.*\]>::new_uninit$", m_new_uninit)

    def m_box_into_vec(e, callee, args):
        b = args[0]
        mu = b.fields[0].fields[0].get()
        return RVec(list(mu.fields[1].fields[0].fields[0]))
    ov(r"box_assume_init_into_vec_unsafe::<", m_box_into_vec)

    def m_extend(e, callee, args):
        v = deref(args[0])
        src = args[1]
        if isinstance(src, RVec):
            items = list(src.items)
        elif isinstance(src, PyIter):
            items = list(src.gen)
        elif isinstance(src, list):
            items = list(src)
        else:
            raise Unmodelled("Vec::extend from %r" % type(src).__name__)
        v.items.extend(items)
        return Tuple([])
    ov(r"^<Vec<.*> as Extend<.*>>::extend::<", m_extend)

    def m_vec_range_index(e, callee, args):
        v = deref(args[0])
        items = v.items if isinstance(v, RVec) else v
        rg = args[1]
        lo, hi = rg.fields[0], rg.fields[1]
        if not (isinstance(lo, int) and isinstance(hi, int)):
            raise Unmodelled("symbolic slice range")
        if lo > hi:
            raise PanicPath("slice index starts at %d but ends at %d" % (lo, hi))
        if hi > len(items):
            raise PanicPath("range end index %d out of range for slice of length %d" % (hi, len(items)))
        cell = [RVec(list(items[lo:hi]))]
        return Ref(cell, 0)
    ov(r"^<Vec<.*> as (std::ops::)?Index<(std::ops::)?Range<usize>>>::index$|^<\[.*\] as (std::ops::)?Index<(std::ops::)?Range<usize>>>::index$"
       r"|^core::slice::index::<impl (std::ops::)?Index<(std::ops::)?Range<usize>> for \[.*\]>::index$", m_vec_range_index)

    def m_slice_iter(e, callee, args):
        v = deref(args[0])
        items = v.items if isinstance(v, RVec) else v
        cells = list(items)
        return PyIter((Ref(cells, i) for i in range(len(cells))))
    ov(r"^core::slice::<impl \[.*\]>::iter$|^std::slice::<impl \[.*\]>::iter$", m_slice_iter)

    def m_vec_into_iter(e, callee, args):
        v = args[0]
        if isinstance(v, RVec):
            return PyIter(iter(list(v.items)))
        raise Unmodelled("into_iter of %r" % type(v).__name__)
    ov(r"^<Vec<.*> as IntoIterator>::into_iter$", m_vec_into_iter)
    ov(r"^<std::vec::IntoIter<.*> as Iterator>::next$", lambda e, c, a: _next(deref(a[0])))

    # --- csv --------------------------------------------------------------------------------------
    ov(r"^csv::Writer::<.*>::from_writer$|^Writer::<.*>::from_writer$", lambda e, c, a: Struct("CsvWriter", ["file"], [a[0]]))
    ov(r"^csv::Writer::<.*>::from_path::<|^Writer::<.*>::from_path::<|^csv::WriterBuilder::from_path::<", lambda e, c, a: _csv_from_path(e, R(), a))

    def m_write_record(e, callee, args):
        rcd = deref(args[1])
        items = rcd.items if isinstance(rcd, RVec) else list(rcd)
        R().records.append([as_text(x) for x in items])
        return Ok(Tuple([]))
    ov(r"^csv::Writer::<.*>::write_record::<|^Writer::<.*>::write_record::<", m_write_record)

    def m_flush(e, callee, args):
        # the last write of a small file happens here: it may fail (device full, quota); the solver chooses
        ok = e.ctx.branch(e.ctx.fresh_bool("flush_ok"), "Writer::flush")
        R().flushed = True
        R().flush_ok = ok
        return Ok(Tuple([])) if ok else Err(Opaque("io::Error"))
    ov(r"^csv::Writer::<.*>::flush$|^Writer::<.*>::flush$", m_flush)

    # --- arrow / parquet --------------------------------------------------------------------------
    def m_field_new(e, callee, args):
        dt = args[1]
        dtn = dt.variant if isinstance(dt, Enum) else (dt.name if isinstance(dt, Struct) else str(getattr(dt, "what", dt)))
        return Struct("Field", ["name", "dt", "nullable"], [as_text(args[0]), dtn.split("::")[-1], args[2]])
    ov(r"^arrow::datatypes::Field::new::<|^Field::new::<", m_field_new)

    def m_schema_new(e, callee, args):
        f = args[0]
        return Struct("Schema", ["fields"], [RVec(list(f.items if isinstance(f, RVec) else f))])
    ov(r"^arrow::datatypes::Schema::new::<|^Schema::new::<", m_schema_new)
    ov(r"^Arc::<.*>::new$|^std::sync::Arc::<.*>::new$", lambda e, c, a: a[0])
    ov(r"^<Arc<.*> as Clone>::clone$|^<std::sync::Arc<.*> as Clone>::clone$", lambda e, c, a: deref(a[0]))
    ov(r"^<Arc<.*> as Deref>::deref$|^<std::sync::Arc<.*> as Deref>::deref$", lambda e, c, a: a[0])
    ov(r"^PrimitiveBuilder::<(\w+)>::new$|^PrimitiveBuilder::<(\w+)>::with_capacity$",
       lambda e, c, a: Struct("Builder", ["ty", "vals"], [c.split("<")[1].split(">")[0], RVec([])]))

    def m_append(e, callee, args):
        deref(args[0]).fields[1].items.append(args[1])
        return Tuple([])
    ov(r"^PrimitiveBuilder::<\w+>::append_value$", m_append)

    def m_finish(e, callee, args):
        b = deref(args[0])
        arr = Struct("Array", ["ty", "vals"], [b.fields[0], RVec(list(b.fields[1].items))])
        b.fields[1] = RVec([])
        return arr
    ov(r"^PrimitiveBuilder::<\w+>::finish$", m_finish)

    def m_batch(e, callee, args):
        schema, cols = deref(args[0]), args[1]
        cols = list(cols.items if isinstance(cols, RVec) else cols)
        fields = schema.fields[0].items
        ty_of = {"UInt32": "UInt32Type", "Float64": "Float64Type", "Float32": "Float32Type", "UInt64": "UInt64Type",
                 "Int32": "Int32Type", "Int64": "Int64Type"}
        ok = len(fields) == len(cols) and len(set(len(c.fields[1].items) for c in cols)) <= 1 and all(
            ty_of.get(f.fields[1], f.fields[1]) == c.fields[0] for f, c in zip(fields, cols))
        if not ok:
            return Err(Opaque("ArrowError::InvalidArgumentError"))
        return Ok(Struct("RecordBatch", ["schema", "cols"], [schema, RVec(cols)]))
    ov(r"^arrow::array::RecordBatch::try_new$|^RecordBatch::try_new$|^arrow::record_batch::RecordBatch::try_new$", m_batch)

    def m_writer_new(e, callee, args):
        r = R()
        r.schema = deref(args[1])
        return Ok(Struct("BatchWriter", ["file", "kind"], [args[0], callee.split("::")[0]]))
    ov(r"^FileWriter::<.*>::try_new$|^ArrowWriter::<.*>::try_new$|^arrow::ipc::writer::FileWriter::<.*>::try_new$"
       r"|^parquet::arrow::ArrowWriter::<.*>::try_new$", m_writer_new)

    def m_writer_write(e, callee, args):
        r = R()
        if r.finished:
            return Err(Opaque("write after finish"))
        r.batches.append(deref(args[1]))
        return Ok(Tuple([]))
    ov(r"^FileWriter::<.*>::write$|^ArrowWriter::<.*>::write$", m_writer_write)

    def m_writer_finish(e, callee, args):
        ok = e.ctx.branch(e.ctx.fresh_bool("finish_ok"), "finish/close")
        R().finished = True
        R().flush_ok = ok
        if not ok:
            return Err(Opaque("write error"))
        return Ok(Opaque("FileMetaData")) if "close" in callee else Ok(Tuple([]))
    ov(r"^FileWriter::<.*>::finish$|^ArrowWriter::<.*>::close$|^ArrowWriter::<.*>::finish$", m_writer_finish)
    ov(r"^WriterProperties::builder$|^WriterPropertiesBuilder::", lambda e, c, a: Opaque("WriterProperties"))
    ov(r"^<T as Into<f64>>::into$|^<f32 as Into<f64>>::into$|^<f64 as From<f32>>::from$", lambda e, c, a: a[0])

    # --- tensors ----------------------------------------------------------------------------------
    def m_to_vec(e, callee, args):
        d = deref(args[0])
        if hasattr(d, "vals"):
            return Ok(RVec(list(d.vals)))
        a = getattr(d, "a", None)
        if a is None:
            raise Unmodelled("TensorData::to_vec on %r" % type(d).__name__)
        return Ok(RVec(list(np.asarray(a, dtype=object).reshape(-1))))
    ov(r"^burn::tensor::TensorData::to_vec::<|^TensorData::to_vec::<", m_to_vec)


def _next(it):
    try:
        return Enum("Option", "Some", [next(it.gen)])
    except StopIteration:
        return Enum("Option", "None", [])


def _csv_from_path(e, r, a):
    r.created.append(a[-1])
    ok = e.ctx.branch(e.ctx.fresh_bool("create_ok"), "Writer::from_path")
    r.create_ok = ok
    return Ok(Struct("CsvWriter", ["file"], [Opaque("file")])) if ok else Err(Opaque("csv::Error"))


# ------------------------------------------------------------------------------------------------------------------
def text_eq(impl, spec):
    """formula / bool: rendered text `impl` equals the expected `spec` (str or Disp of a Num)"""
    if isinstance(spec, str):
        return isinstance(impl, str) and impl == spec
    if isinstance(impl, Disp) and impl.spec is None and isinstance(impl.v, Num):
        return zbool(impl.v.same(spec.v))
    return False


def conj(xs):
    xs = list(xs)
    if any(x is False for x in xs):
        return False
    xs = [x for x in xs if x is not True]
    return z3.And(xs) if xs else True


SHAPES_QUICK = [(2, 2, 2), (1, 3, 1), (3, 1, 2), (0, 0, 0), (2, 0, 1), (1, 2, 0), (2, 3, 1)]
SHAPES_THOROUGH = [(3, 2, 3), (1, 1, 1), (0, 2, 2), (2, 2, 0), (3, 3, 2), (1, 4, 2)]


def c17_layout(out, tier, seed):
    eng = mir_load.load_engine(FEATURES)
    box = {}
    install(eng, box)
    shapes = SHAPES_QUICK + (SHAPES_THOROUGH if tier == "thorough" else [])
    u = MUnit(out, "C17", "c17_layout", eng,
              functions=["io::csv::save_csv", "io::csv::save_csv_tensor", "io::arrow::save_arrow", "io::parquet::save_parquet",
                         "io::parquet::save_parquet_tensor (+ their closures)"],
              bounds=["array / tensor shapes %s with every element an independent symbolic number; File::create succeeds or "
                      "fails (solver's choice)" % (shapes,)],
              assumptions=["the csv / arrow-ipc / parquet writers are recorders: write_record, the schema, the record batch "
                           "columns and finish/close are logged in call order; RecordBatch::try_new fails unless column count, "
                           "lengths and types match the schema (its documented contract); after File::create succeeded "
                           "write_record / write succeed, the final flush / finish / close may fail (solver's choice)",
                           "Display of a number with default options is an injective function of the value (so 'parses back "
                           "to the same number' is decided by the real round trip in the native replay, not by the solver)",
                           "the element type matches the tensor's dtype (TensorData::to_vec succeeds)"],
              out_of_scope=["the bytes written and the third-party readers (only the native replay exercises them)",
                            "I/O errors in intermediate writes (only creation and the final flush / finish / close may fail)", "shapes beyond the listed ones (loops are uniform)",
                            "indices >= 2^32 (u32 labels)"])
    fns = [("save_csv", "array", "csv", ("chain", "observation")),
           ("save_csv_tensor", "tensor", "csv", ("chain", "observation")),
           ("save_arrow", "array", "batch", ("chain", "observation")),
           ("save_parquet", "array", "batch", ("chain", "observation")),
           ("save_parquet_tensor", "tensor", "batch", ("observation", "chain"))]
    reached = {f[0]: 0 for f in fns}
    for fname, kind, sink, labels in fns:
        for shape in shapes:
            def run(ctx, fname=fname, kind=kind, shape=shape):
                rec = Recorder()
                box["rec"] = rec
                n = shape[0] * shape[1] * shape[2]
                vals = [ctx.fresh_real("x") for _ in range(n)]
                a = obj_array(vals, shape) if n else np.empty(shape, dtype=object)
                arg = ND(a) if kind == "array" else Ten(a)
                fnm = StrLit('"out.file"')
                if kind == "array" or fname == "save_parquet_tensor":
                    r = eng.call_fn(fname, [Ref.to(arg), fnm])
                else:
                    r = eng.call_fn(fname, [arg, fnm])
                return rec, a, r
            for ctx, res in eng.explore(run, max_paths=50):
                u.paths += 1
                inst = "%s shape=%s" % (fname, shape)
                rp = replay_io(fname, shape)
                if isinstance(res, PanicPath):
                    u.holds(ctx, "%s never panics" % fname, False, rp, inst)
                    continue
                if isinstance(res, Exception):
                    out.inconclusive.append("c17_layout %s: %r" % (inst, res))
                    continue
                rec, a, r = res
                if rec.create_ok is False:
                    u.holds(ctx, "a path that cannot be written yields an error", r.variant == "Err", rp, inst)
                    continue
                if rec.flush_ok is False:
                    u.holds(ctx, "a failing final flush / finish / close yields an error, not a reported success", r.variant == "Err", rp, inst)
                    continue
                if r.variant != "Ok":
                    # an error is not a success: nothing is claimed about the file, but with a writable path and matching
                    # element type the function must succeed
                    u.holds(ctx, "%s succeeds on a writable path" % fname, False, rp, inst)
                    continue
                reached[fname] += 1
                u.holds(ctx, "success is reported only after the writer was flushed / finished explicitly and that call succeeded "
                        "(csv::Writer's Drop flushes too, but discards the error)", rec.flush_ok is True, rp, inst)
                u.holds(ctx, "the file is created exactly once, at the given path",
                        len(rec.created) == 1 and isinstance(rec.created[0], StrLit) and rec.created[0].value == "out.file", rp, inst)
                d0, d1, d2 = shape
                # expected rows in the documented order: first label major
                rows = [(i, j) for i in range(d0) for j in range(d1)]
                header = [labels[0], labels[1]] + ["dim_%d" % k for k in range(d2)]
                if sink == "csv":
                    ok_hdr = len(rec.records) >= 1 and len(rec.records[0]) == len(header) and all(
                        text_eq(x, h) is True for x, h in zip(rec.records[0], header))
                    u.holds(ctx, "CSV header is chain, observation, dim_0.. (documented header)", ok_hdr, rp, inst)
                    body = rec.records[1:]
                    u.holds(ctx, "one CSV row per (chain, observation) cell", len(body) == len(rows), rp, inst)
                    if len(body) != len(rows):
                        continue
                    lab = all(len(rw) == 2 + d2 and text_eq(rw[0], str(i)) is True and text_eq(rw[1], str(j)) is True
                              for rw, (i, j) in zip(body, rows))
                    u.holds(ctx, "CSV rows are labelled with their (chain, observation) indices, chain-major", lab, rp, inst)
                    if not lab:
                        continue
                    u.holds(ctx, "dim_j of row (c, n) is the decimal rendering of data[c][n][j]",
                            conj(text_eq(rw[2 + k], Disp(a[i, j, k])) for rw, (i, j) in zip(body, rows) for k in range(d2)), rp, inst)
                else:
                    u.holds(ctx, "exactly one record batch is written and the writer is finished/closed",
                            len(rec.batches) == 1 and rec.finished, rp, inst)
                    if len(rec.batches) != 1:
                        continue
                    b = rec.batches[0]
                    want = [(labels[0], "UInt32", False), (labels[1], "UInt32", False)] + [("dim_%d" % k, "Float64", False) for k in range(d2)]

                    def schema_ok(s):
                        fs = s.fields[0].items
                        return len(fs) == len(want) and all(f.fields[0] == w[0] and f.fields[1] == w[1] and f.fields[2] is w[2]
                                                            for f, w in zip(fs, want))
                    u.holds(ctx, "schema is (label, label: UInt32; dim_j: Float64), non-nullable, as documented, for the file and the batch",
                            schema_ok(b.fields[0]) and rec.schema is not None and schema_ok(rec.schema), rp, inst)
                    cols = b.fields[1].items
                    if len(cols) != 2 + d2:
                        u.holds(ctx, "one column per label and dimension", False, rp, inst)
                        continue
                    u.holds(ctx, "one row per cell", all(len(c.fields[1].items) == len(rows) for c in cols), rp, inst)
                    if not all(len(c.fields[1].items) == len(rows) for c in cols):
                        continue
                    lab = all(cols[0].fields[1].items[r_] == i and cols[1].fields[1].items[r_] == j for r_, (i, j) in enumerate(rows))
                    u.holds(ctx, "rows are labelled with the indices of the documented axis order", lab, rp, inst)
                    u.holds(ctx, "dim_j of row (i, j) holds exactly data[i][j][k] widened to f64",
                            conj(zbool(Num.of(cols[2 + k].fields[1].items[r_]).same(a[i, j, k]))
                                 for r_, (i, j) in enumerate(rows) for k in range(d2)), rp, inst)
    for f, n in reached.items():
        u.reached("%s returns Ok on some explored path" % f, n)
    u.done()


# ------------------------------------------------------------------------------------------------------------------
# native replay: real save_* with the features on, files read back by the csv / arrow-ipc / parquet readers
IODIR = os.path.join(VERIF, "engines", "ioreplay")
IOTARGET = os.path.join(CACHE, "ioreplay-target")
_built = {}


def build_ioreplay(profile):
    if profile in _built:
        return _built[profile]
    import shutil
    shutil.copyfile(os.path.join(REPO, "Cargo.lock"), os.path.join(IODIR, "Cargo.lock"))
    cmd = ["cargo", "build", "--offline", "--target-dir", IOTARGET] + (["--release"] if profile == "release" else [])
    p = subprocess.run(cmd, cwd=IODIR, env=env_offline(), stdout=subprocess.PIPE, stderr=subprocess.STDOUT, text=True)
    if p.returncode != 0:
        log("ioreplay build (%s) failed:\n%s" % (profile, p.stdout[-3000:]))
        _built[profile] = None
    else:
        _built[profile] = os.path.join(IOTARGET, "release" if profile == "release" else "debug", "ioreplay")
    return _built[profile]


def native_io(case, profiles=("dev", "release")):
    out = {}
    tmp = os.path.join(CACHE, "iotmp")
    os.makedirs(tmp, exist_ok=True)
    for prof in profiles:
        exe = build_ioreplay(prof)
        if exe is None:
            out[prof] = {"error": "build failed"}
            continue
        p = subprocess.run([exe, json.dumps(case), tmp], stdout=subprocess.PIPE, stderr=subprocess.PIPE, text=True,
                           env=dict(os.environ, RUST_BACKTRACE="0"))
        line = p.stdout.strip().splitlines()[-1] if p.stdout.strip() else ""
        try:
            out[prof] = json.loads(line)
        except Exception:
            out[prof] = {"panic": True, "rc": p.returncode, "stderr": p.stderr.strip()[-400:]}
    return out


def replay_io(fname, shape):
    def replay(model=None):
        tried = []
        shapes = [tuple(shape)] + [s for s in ((2, 3, 2), (3, 2, 1), (1, 1, 3), (0, 0, 0), (2, 2, 0)) if s != tuple(shape)]
        for sh in shapes:
            for values in ("distinct", "special"):
                case = {"fn": fname, "shape": list(sh), "values": values}
                nat = native_io(case)
                bad = [prof for prof, r in nat.items() if isinstance(r, dict) and (r.get("panic") or r.get("ok") is False)]
                tried.append({"case": case, "native": nat})
                if bad:
                    return True, {"case": case, "native": nat, "reproduced_in": sorted(bad)}
        for case in ({"fn": fname, "shape": [1, 1, 1], "values": "distinct", "unwritable": True},
                     {"fn": fname, "shape": [2, 2, 2], "values": "distinct", "devfull": True},
                     {"fn": fname, "shape": [2, 0, 3], "values": "distinct", "devfull": True}):
            nat = native_io(case)
            bad = [prof for prof, r in nat.items() if isinstance(r, dict) and (r.get("panic") or r.get("ok") is False)]
            if bad:
                return True, {"case": case, "native": nat, "reproduced_in": sorted(bad)}
        return False, {"tried": tried[:2]}
    return replay
