"""Engine M checks for MetropolisHastings::{new, seed}: which generator every chain ends up with (C07: a pure function of the
seed; C08: no two generators of the sampler share a seed), for chain counts the Kani harnesses cannot afford (33, 64)."""
import z3

import mir_load
from mcheck import MUnit, native
from mirsym import Opaque, PanicPath, Ref, RVec, Struct, Tuple, Unmodelled, Num


class RecProposal:
    """user-defined seedable Proposal: remembers the seed it was last given (None = as constructed by the user)"""

    def __init__(self, seed=None):
        self.seed = seed

    def rust_clone(self):
        return RecProposal(self.seed)


class AnyTarget:
    def rust_clone(self):
        return self


def install(eng):
    eng.overrides = [(p, f) for (p, f) in eng.overrides if "Proposal" not in p.pattern and "next_u64" not in p.pattern]

    def set_seed(e, callee, args):
        return RecProposal(args[1])
    eng.override(r"as Proposal<.*>>::set_seed$|^<Q as Proposal<S, T>>::set_seed$", set_seed)
    eng.override(r"^<Q as Clone>::clone$|^<D as Clone>::clone$", lambda e, c, a: _clone(a[0]))

    def next_u64(e, callee, args):
        v = e.ctx.fresh_int("os_u64")
        e.ctx.assume(z3.And(v >= 0, v <= 2 ** 64 - 1))
        return v
    eng.override(r"SmallRng as (rand::)?(rand_core::)?RngCore>::next_u64$|SmallRng as RngCore>::next_u64$", next_u64)


def _clone(v):
    while isinstance(v, Ref):
        v = v.get()
    return v.rust_clone() if hasattr(v, "rust_clone") else v


def zi(x):
    return z3.IntVal(x) if isinstance(x, int) else x


def z3vars(e):
    out, todo, seen = set(), [e], set()
    while todo:
        t = todo.pop()
        if t.get_id() in seen:
            continue
        seen.add(t.get_id())
        if z3.is_const(t) and t.decl().kind() == z3.Z3_OP_UNINTERPRETED:
            out.add(str(t))
        todo.extend(t.children())
    return out


def replay_mh_seed(model=None, seed_var=None):
    seeds = [2 ** 64 - 1, 2 ** 64 - 2, 2 ** 64 - 34, 2 ** 64 - 65, 0, 42]
    if model is not None and seed_var is not None:
        try:
            seeds.insert(0, model.eval(seed_var, model_completion=True).as_long())
        except Exception:
            pass
    tried = []
    for s in seeds:
        for n in (33, 64, 2):
            case = {"case": "mh_seed_streams", "seed": str(s), "chains": n}
            nat = native(case)
            bad = [p for p, r in nat.items() if isinstance(r, dict) and (r.get("panic") or r.get("ok") is False)]
            tried.append({"case": case, "native": nat})
            if bad:
                return True, {"case": case, "native": nat, "reproduced_in": bad}
    return False, {"tried": tried[:2]}


def c08_mh_streams(out, tier, seed):
    eng = mir_load.load_engine()
    install(eng)
    counts = [2, 33] + ([64, 40] if tier == "thorough" else [])
    u = MUnit(out, out.prop, "c08_mh_streams", eng,
              functions=["MetropolisHastings::new (+ closure)", "MHMarkovChain::new", "MetropolisHastings::seed"],
              bounds=["seed symbolic over all of u64; %s chains; user-defined seedable proposal that records the seed it is given" % (counts,)],
              assumptions=["SmallRng::seed_from_u64 is identified with its seed (injective); from_os_rng yields an opaque entropy state; "
                           "integers are mathematical integers with wrapping / checked operations modelled exactly, bit operations "
                           "through 64-bit bit-vectors"],
              out_of_scope=["statistical independence of streams with different seeds", "the library's own IsotropicGaussian "
                            "(its set_seed is exercised by the Kani harnesses)"])
    new_fn = eng.find_fn("MetropolisHastings::new")
    seed_fn = eng.find_fn("MetropolisHastings::seed")
    for n in counts:
        def run(ctx, n=n):
            s = ctx.fresh_int("seed")
            ctx.assume(z3.And(s >= 0, s <= 2 ** 64 - 1))
            states = RVec([RVec([Num(0)]) for _ in range(n)])
            me = eng.call_fn(new_fn, [AnyTarget(), RecProposal(None), states])
            r = eng.call_fn(seed_fn, [me, s])
            return s, r
        done = 0
        for ctx, res in eng.explore(run, max_paths=40):
            u.paths += 1
            if isinstance(res, PanicPath):
                u.holds(ctx, "seed() accepts every 64-bit seed (no overflow panic)", False, replay_mh_seed, "%d chains: %s" % (n, str(res)[:80]))
                continue
            if isinstance(res, Exception):
                out.inconclusive.append("c08_mh_streams n=%d: %r" % (n, res))
                continue
            done += 1
            s, r = res
            chains = r.get("chains").items
            inst = "%d chains" % n

            def rp(model, s=s):
                return replay_mh_seed(model, s)
            acc = [c.get("rng").fields[0] for c in chains]
            prop = [getattr(_clone(c.get("proposal")), "seed", None) for c in chains]
            ok = len(chains) == n and all(not isinstance(x, Opaque) for x in acc) and all(x is not None and not isinstance(x, Opaque) for x in prop)
            u.holds(ctx, "seed() reseeds the acceptance generator and the proposal of every chain (C07: nothing keeps OS entropy)", ok, rp, inst)
            if not ok:
                continue
            allv = [zi(x) for x in acc + prop]
            pure = all(z3vars(x) <= {"seed_0"} for x in allv if not z3.is_int_value(x))
            u.holds(ctx, "every generator seed is a function of the seed and the chain index only (C07)", pure, rp, inst)
            u.holds(ctx, "chain seeds are 64-bit values", z3.And([z3.And(x >= 0, x <= 2 ** 64 - 1) for x in allv]), rp, inst)
            u.holds(ctx, "no two generators of a seeded sampler (acceptance or proposal, any chains) share a seed (C08)",
                    z3.Distinct(*allv) if len(allv) > 1 else True, rp, inst)
        u.reached("seed() completes with %d chains" % n, done)
    u.done()
