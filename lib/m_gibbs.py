"""Engine M check for C05: GibbsMarkovChain::step from MIR on a chain built by the real constructor, with a recording
conditional whose answers are fresh symbols, over several consecutive sweeps (hidden per-chain state carried from one sweep
to the next is part of what is executed)."""
import z3

import mir_load
from mcheck import MUnit, native
from mirsym import Num, Opaque, Ref, RVec, Struct, Unmodelled, zbool


class RecCond:
    """user-defined Conditional: records (index, snapshot of `given`) per call, answers fresh symbols"""

    def __init__(self, ctx):
        self.ctx = ctx
        self.calls = []

    def rust_clone(self):
        return self


def install(eng):
    eng.overrides = [(p, f) for (p, f) in eng.overrides if "Conditional" not in p.pattern]

    def sample(e, callee, args):
        c = args[0]
        while isinstance(c, Ref):
            c = c.get()
        given = args[2]
        while isinstance(given, Ref):
            given = given.get()
        items = list(given.items if isinstance(given, RVec) else given)
        idx = args[1]
        if not isinstance(idx, int):
            raise Unmodelled("symbolic coordinate index")
        v = e.ctx.fresh_real("ans")
        c.calls.append((idx, [Num.of(x) for x in items], v))
        return v
    eng.override(r"as Conditional<.*>>::sample$|^<D as Conditional<S>>::sample$|Conditional<S>>::sample$", sample)


def replay_gibbs(model=None):
    tried = []
    for case in ({"case": "gibbs_sweeps", "d": 3, "sweeps": 4, "script": "repeat_first"},
                 {"case": "gibbs_sweeps", "d": 1, "sweeps": 3, "script": "repeat_first"},
                 {"case": "gibbs_sweeps", "d": 5, "sweeps": 3, "script": "fresh"},
                 {"case": "gibbs_sweeps", "d": 4, "sweeps": 4, "script": "repeat_all"}):
        nat = native(case)
        bad = [prof for prof, r in nat.items() if isinstance(r, dict) and (r.get("panic") or r.get("ok") is False)]
        tried.append({"case": case, "native": nat})
        if bad:
            return True, {"case": case, "native": nat, "reproduced_in": bad}
    return False, {"tried": tried[:2]}


def c05_gibbs_sweeps(out, tier, seed):
    eng = mir_load.load_engine()
    install(eng)
    cfgs = [(1, 3), (3, 2), (4, 2)] + ([(2, 3), (6, 2)] if tier == "thorough" else [])
    u = MUnit(out, "C05", "c05_gibbs_sweeps", eng,
              functions=["GibbsMarkovChain::new", "<GibbsMarkovChain as MarkovChain>::step (+ closure)", "current_state"],
              bounds=["(dimension, consecutive sweeps) in %s; the initial state and every answer of the conditional are arbitrary "
                      "reals (so an answer may equal the value it replaces)" % (cfgs,)],
              assumptions=["the user's Conditional is an arbitrary function: it records what it is asked and answers a fresh symbol",
                           "rand::rng().random::<u64>() in the constructor is an arbitrary 64-bit value"],
              out_of_scope=["dimensions beyond the listed ones (the sweep is a uniform loop)", "non-numeric state types"])
    step = eng.find_fn("<GibbsMarkovChain as MarkovChain>::step")
    new_fn = eng.find_fn("GibbsMarkovChain::new")
    for (d, sweeps) in cfgs:
        def run(ctx, d=d, sweeps=sweeps):
            cond = RecCond(ctx)
            init = [ctx.fresh_real("x0") for _ in range(d)]
            chain = eng.call_fn(new_fn, [cond, Ref.to(RVec(list(init)))])
            per_sweep = []
            for s in range(sweeps):
                n0 = len(cond.calls)
                before = [Num.of(x) for x in chain.get("current_state").items]
                r = eng.call_fn(step, [Ref.to(chain)])
                while isinstance(r, Ref):
                    r = r.get()
                after = [Num.of(x) for x in chain.get("current_state").items]
                per_sweep.append((before, cond.calls[n0:], after, list(r.items if isinstance(r, RVec) else r)))
            return init, per_sweep
        for ctx, res in eng.explore(run, max_paths=600):
            u.paths += 1
            if isinstance(res, Exception):
                out.inconclusive.append("c05_gibbs_sweeps d=%d: %r" % (d, res))
                continue
            init, per_sweep = res
            for s, (before, calls, after, ret) in enumerate(per_sweep):
                inst = "dimension=%d sweep=%d of %d" % (d, s + 1, sweeps)
                ok_n = len(calls) == d and [c[0] for c in calls] == list(range(d)) if True else False
                once = sorted(c[0] for c in calls) == list(range(d))
                u.holds(ctx, "every sweep asks the conditional exactly once per coordinate (also after a sweep that changed nothing)",
                        once, replay_gibbs, inst)
                if not once:
                    continue
                # freshest state: the request for coordinate i sees the answers already given in this sweep and the old rest
                model_state = list(before)
                conj = []
                for (i, given, ans) in calls:
                    conj.append(len(given) == d)
                    if len(given) == d:
                        conj += [zbool(given[k].same(model_state[k])) for k in range(d)]
                    model_state[i] = ans
                conj = [c for c in conj if c is not True]
                u.holds(ctx, "each request passes the current state with all earlier answers of the sweep already written",
                        False if any(c is False for c in conj) else (z3.And(conj) if conj else True), replay_gibbs, inst)
                fin = len(after) == d and len(ret) == d
                u.holds(ctx, "after the sweep every coordinate holds its answer and nothing else changed; step returns that state",
                        (z3.And([zbool(after[k].same(model_state[k])) for k in range(d)] +
                                [zbool(Num.of(ret[k]).same(model_state[k])) for k in range(d)]) if fin else False), replay_gibbs, inst)
            del ok_n
    u.done()
