"""Engine M checks for the run wrappers: C09 (shape/order/burn-in/continuation) and C10 (progress mode)."""
import re

import numpy as np
import z3

import mcheck
import mir_load
import mirsym
from mcheck import MUnit, native
from mirsym import (Enum, Num, Ok, Opaque, PanicPath, Ref, RVec, Struct, Tuple, Unmodelled, zbool)
from models_burn import Ten, TData
from models_nd import ND, obj_array
from m_nuts import nuts_chain_struct, tensor, vec
from m_hmc import hmc_struct

ASSUME = ["a chain / sampler transition is summarised as an opaque state transformer: the state after the k-th transition of "
          "chain c is a fresh symbol S[c][k] (the transition functions themselves are decided by C01-C05)",
          "rayon's par_iter_mut().map().collect() applies the closure once per element and returns results in index order "
          "(its documented contract)"]


class SymChain:
    """user-defined MarkovChain whose k-th transition yields fresh symbols"""

    def __init__(self, ctx, cid, dim):
        self.ctx, self.cid, self.dim = ctx, cid, dim
        self.k = 0
        self.hist = [[ctx.fresh_real("s%d_0" % cid) for _ in range(dim)]]
        self.state = RVec(list(self.hist[0]))

    def step(self):
        self.k += 1
        st = [self.ctx.fresh_real("s%d_%d" % (self.cid, self.k)) for _ in range(self.dim)]
        self.hist.append(st)
        self.state = RVec(list(st))
        return Ref.to(self.state)


def install_chain_overrides(eng):
    eng.overrides = [(p, f) for (p, f) in eng.overrides if "MarkovChain" not in p.pattern and "HasChains" not in p.pattern]

    def cur(e, callee, args):
        ch = args[0]
        while isinstance(ch, Ref):
            ch = ch.get()
        return Ref.to(ch.state)

    def step(e, callee, args):
        ch = args[0]
        while isinstance(ch, Ref):
            ch = ch.get()
        return ch.step()

    def chains_mut(e, callee, args):
        s = args[0]
        while isinstance(s, Ref):
            s = s.get()
        return Ref.to(s.fields[0])
    eng.override(r"as MarkovChain<T>>::current_state$", cur)
    eng.override(r"as MarkovChain<T>>::step$", step)
    eng.override(r"as HasChains<T>>::chains_mut$", chains_mut)


def same(a, b):
    return zbool(Num.of(a).same(Num.of(b)))


def replay_run(sampler):
    def replay(model=None):
        tried = []
        for (a, b, c) in ((3, 2, 2), (2, 0, 2), (1, 0, 1), (4, 1, 3)) + (((0, 2, 3), (0, 1, 1)) if sampler == "hmc" else ()):
            case = {"case": "run_continuation", "sampler": sampler, "a": a, "b": b, "c": c, "seed": 5}
            nat = native(case)
            bad = []
            for prof, r in nat.items():
                if not isinstance(r, dict) or "first" not in r:
                    if isinstance(r, dict) and r.get("panic"):
                        bad.append(prof)
                    continue
                f = lambda v: [float(str(x).replace("NaN", "nan")) for x in v]  # noqa: E731
                first, second, pos = f(r["first"]), f(r["second"]), f(r["pos_after_first"])
                if sampler == "hmc":
                    long = f(r["long"])
                    nch, dim = 3, 2
                    manual = [f(m) for m in r.get("manual", [])]
                    if "manual_after" in r and f(r["manual_after"]) != pos:
                        bad.append(prof)  # the sampler is not left where a + b hand-made transitions leave it
                    for k, m in enumerate(manual):  # run(a, b) = positions after transitions b+1 .. b+a made by hand
                        for ch in range(nch):
                            if first[(ch * a + k) * dim:(ch * a + k + 1) * dim] != m[ch * dim:(ch + 1) * dim]:
                                bad.append(prof)
                    for ch in range(nch):
                        if a == 0:
                            break
                        row_last = first[(ch * a + a - 1) * dim:(ch * a + a) * dim]
                        if row_last != pos[ch * dim:(ch + 1) * dim]:
                            bad.append(prof)
                        for k in range(a):
                            if first[(ch * a + k) * dim:(ch * a + k + 1) * dim] != long[(ch * (a + c) + k) * dim:(ch * (a + c) + k + 1) * dim]:
                                bad.append(prof)
                        for k in range(c):
                            if second[(ch * c + k) * dim:(ch * c + k + 1) * dim] != long[(ch * (a + c) + a + k) * dim:(ch * (a + c) + a + k + 1) * dim]:
                                bad.append(prof)
                else:
                    dim = 2
                    if first[(a - 1) * dim:a * dim] != pos:
                        bad.append(prof)  # the chain is not left at the last returned state
                    if second[0:dim] != first[(a - 1) * dim:a * dim]:
                        bad.append(prof)  # the following run does not start from it
            tried.append({"case": case, "native": nat})
            if bad:
                return True, {"case": case, "native": nat, "reproduced_in": sorted(set(bad))}
        return False, {"tried": tried[:1]}
    return replay


def replay_runner(model=None):
    tried = []
    for (nc, ncol, ndis) in ((3, 2, 1), (2, 3, 0), (1, 1, 2), (4, 2, 2)):
        case = {"case": "runner_layout", "chains": nc, "n_collect": ncol, "n_discard": ndis}
        nat = native(case)
        bad = [prof for prof, r in nat.items() if isinstance(r, dict) and (r.get("panic") or r.get("ok") is False)]
        tried.append({"case": case, "native": nat})
        if bad:
            return True, {"case": case, "native": nat, "reproduced_in": bad}
    return False, {"tried": tried[:1]}


def c09_runner(out, tier, seed):
    eng = mir_load.load_engine()
    install_chain_overrides(eng)
    cfgs = [(1, 2, 1, 1), (2, 1, 0, 2), (3, 2, 2, 1), (2, 0, 1, 1)]
    if tier == "thorough":
        cfgs += [(3, 3, 3, 2), (1, 0, 0, 1), (4, 2, 1, 3), (2, 3, 0, 1)]
    u = MUnit(out, "C09", "c09_runner", eng,
              functions=["core::run_chain", "ChainRunner::run (+ closures) for a user-defined HasChains"],
              bounds=["(chains, n_collect, n_discard, dim) in %s, followed by a second run(n_collect, 0)" % (cfgs,)],
              assumptions=ASSUME, out_of_scope=["larger sizes (the loops are uniform)", "ndarray / rayon internals (modelled)"])
    run_name = "ChainRunner::run"
    for (nc, ncol, ndis, dim) in cfgs:
        def run(ctx, nc=nc, ncol=ncol, ndis=ndis, dim=dim):
            chains = [SymChain(ctx, c, dim) for c in range(nc)]
            sampler = Struct("UserSampler", ["chains"], [RVec(chains)])
            r1 = eng.call_fn(run_name, [Ref.to(sampler), ncol, ndis])
            k1 = [c.k for c in chains]
            r2 = eng.call_fn(run_name, [Ref.to(sampler), ncol, 0])
            return chains, r1, k1, r2
        for ctx, res in eng.explore(run):
            u.paths += 1
            if isinstance(res, Exception):
                out.inconclusive.append("c09_runner %s: %r" % ((nc, ncol, ndis, dim), res))
                continue
            chains, r1, k1, r2 = res
            inst = "chains=%d n_collect=%d n_discard=%d dim=%d" % (nc, ncol, ndis, dim)
            u.holds(ctx, "run returns Ok", r1.variant == "Ok" and r2.variant == "Ok", replay_runner, inst)
            if r1.variant != "Ok" or r2.variant != "Ok":
                continue
            a1, a2 = r1.fields[0].a, r2.fields[0].a
            u.holds(ctx, "result has shape [n_chains, n_collect, dim]", tuple(a1.shape) == (nc, ncol, dim), replay_runner, inst)
            u.holds(ctx, "every chain performs exactly n_collect + n_discard transitions", all(k == ncol + ndis for k in k1), replay_runner, inst)
            if tuple(a1.shape) != (nc, ncol, dim):
                continue
            conj = []
            for c in range(nc):
                for k in range(ncol):
                    for i in range(dim):
                        conj.append(same(a1[c, k, i], chains[c].hist[ndis + k + 1][i]))
            u.holds(ctx, "row c belongs to the c-th chain and entry k is its state after exactly n_discard + k + 1 transitions",
                    z3.And(conj) if conj else True, replay_runner, inst)
            conj = []
            for c in range(nc):
                for k in range(ncol):
                    for i in range(dim):
                        conj.append(same(a2[c, k, i], chains[c].hist[ndis + ncol + k + 1][i]))
            u.holds(ctx, "a following run continues from the last returned state (two runs = one longer run)",
                    z3.And(conj) if conj else True, replay_runner, inst)
            u.holds(ctx, "the second run performs exactly n_collect more transitions",
                    all(c.k == 2 * ncol + ndis for c in chains), replay_runner, inst)
    u.done()


def c09_hmc_run(out, tier, seed):
    eng = mir_load.load_engine()
    cfgs = [(2, 2, 1, 1), (1, 1, 0, 2), (3, 2, 2, 1), (2, 0, 1, 1)]
    if tier == "thorough":
        cfgs += [(2, 3, 3, 2), (4, 1, 0, 1)]
    u = MUnit(out, "C09", "c09_hmc_run", eng, functions=["HMC::run (+ closures)"],
              bounds=["(chains, n_collect, n_discard, dim) in %s, followed by a second run(n_collect, 0)" % (cfgs,)],
              assumptions=ASSUME + ["burn slice_assign / unsqueeze_dim / permute follow their documented semantics"],
              out_of_scope=["larger sizes"])
    run_name = eng.find_fn("HMC::run")
    for (nc, ncol, ndis, dim) in cfgs:
        hist = []

        def step(e, callee, args, nc=nc, dim=dim):
            me = args[0]
            while isinstance(me, Ref):
                me = me.get()
            k = len(hist)
            vals = [e.ctx.fresh_real("p%d" % k) for _ in range(nc * dim)]
            hist.append(vals)
            me.set("positions", Ten(obj_array(vals, (nc, dim))))
            return Tuple([])
        eng.overrides = [(p, f) for (p, f) in eng.overrides if "HMC" not in p.pattern]
        eng.override(r"^HMC::<.*>::step$", step)

        def run(ctx, nc=nc, ncol=ncol, ndis=ndis, dim=dim):
            del hist[:]
            p0 = [ctx.fresh_real("p_init") for _ in range(nc * dim)]
            me = hmc_struct(eng, step_size=Num(1), n_leapfrog=1, positions=Ten(obj_array(p0, (nc, dim))),
                            last_grad_summands=Ten(obj_array([Num(0)] * (nc * dim), (nc, dim))), rng=Opaque("rng"))
            r1 = eng.call_fn(run_name, [Ref.to(me), ncol, ndis])
            n1 = len(hist)
            r2 = eng.call_fn(run_name, [Ref.to(me), ncol, 0])
            return r1, n1, r2, [list(h) for h in hist], me
        for ctx, res in eng.explore(run):
            u.paths += 1
            if isinstance(res, Exception):
                out.inconclusive.append("c09_hmc_run %s: %r" % ((nc, ncol, ndis, dim), res))
                continue
            r1, n1, r2, hs, me = res
            inst = "chains=%d n_collect=%d n_discard=%d dim=%d" % (nc, ncol, ndis, dim)
            u.holds(ctx, "HMC::run returns shape [n_chains, n_collect, dim]", tuple(r1.a.shape) == (nc, ncol, dim), replay_run("hmc"), inst)
            u.holds(ctx, "HMC::run performs exactly n_collect + n_discard transitions", n1 == ncol + ndis and len(hs) == 2 * ncol + ndis, replay_run("hmc"), inst)
            if tuple(r1.a.shape) != (nc, ncol, dim) or len(hs) != 2 * ncol + ndis:
                continue
            conj = [same(r1.a[c, k, i], hs[ndis + k][c * dim + i]) for c in range(nc) for k in range(ncol) for i in range(dim)]
            u.holds(ctx, "HMC::run: entry (c, k) is chain c's position after exactly n_discard + k + 1 transitions",
                    z3.And(conj) if conj else True, replay_run("hmc"), inst)
            conj = [same(r2.a[c, k, i], hs[ndis + ncol + k][c * dim + i]) for c in range(nc) for k in range(ncol) for i in range(dim)]
            u.holds(ctx, "HMC::run: a following run continues from the sampler's current positions",
                    z3.And(conj) if conj else True, replay_run("hmc"), inst)
    u.done()


def c09_nuts_run(out, tier, seed):
    eng = mir_load.load_engine()
    cfgs = [(2, 1, 2), (1, 0, 1), (3, 2, 1), (2, 0, 2)]
    if tier == "thorough":
        cfgs += [(4, 3, 2), (1, 3, 1)]
    u = MUnit(out, "C09", "c09_nuts_run", eng, functions=["NUTSChain::run", "NUTSChain::init_chain", "NUTS::run (+ closure)"],
              bounds=["(n_collect, n_discard, dim) in %s for one chain; NUTS::run with 3 chains" % (cfgs,)],
              assumptions=ASSUME + ["find_reasonable_epsilon summarised by an arbitrary positive result"],
              out_of_scope=["larger sizes"])
    run_name = eng.find_fn("NUTSChain::run")
    hist = []

    def step(e, callee, args):
        me = args[0]
        while isinstance(me, Ref):
            me = me.get()
        d = me.get("position").a.shape[0]
        vals = [e.ctx.fresh_real("q%d" % len(hist)) for _ in range(d)]
        hist.append(vals)
        me.set("position", tensor(vals))
        return Tuple([])

    def fre(e, callee, args):
        x = e.ctx.fresh_real("eps0")
        e.ctx.assume(x.z() > 0)
        return x
    eng.override(r"^NUTSChain::<.*>::step$", step)
    eng.override(r"^find_reasonable_epsilon::<", fre)
    for (ncol, ndis, dim) in cfgs:
        def run(ctx, ncol=ncol, ndis=ndis, dim=dim):
            del hist[:]
            import models_core
            ctx.assume(z3.And(models_core.EPS.z() > 0, models_core.EPS.z() < z3.RealVal("1/1000000")))
            p0 = [ctx.fresh_real("q_init") for _ in range(dim)]
            me = nuts_chain_struct(eng, epsilon=Num(-1), m=0, n_collect=0, n_discard=0, mu=Num(0), position=tensor(p0), rng=Opaque("rng"))
            r = eng.call_fn(run_name, [Ref.to(me), ncol, ndis])
            return p0, r, [list(h) for h in hist], me
        for ctx, res in eng.explore(run):
            u.paths += 1
            if isinstance(res, Exception):
                out.inconclusive.append("c09_nuts_run %s: %r" % ((ncol, ndis, dim), res))
                continue
            p0, r, hs, me = res
            inst = "n_collect=%d n_discard=%d dim=%d" % (ncol, ndis, dim)
            u.holds(ctx, "NUTSChain::run returns shape [n_collect, dim]", tuple(r.a.shape) == (ncol, dim), replay_run("nuts"), inst)
            u.holds(ctx, "NUTSChain::run performs n_collect + n_discard - 1 transitions (its first kept draw is the last warm-up state)",
                    len(hs) == ncol + ndis - 1, replay_run("nuts"), inst)
            if tuple(r.a.shape) != (ncol, dim) or len(hs) != ncol + ndis - 1:
                continue
            states = [p0] + hs  # states[t] = position after t transitions
            conj = [same(r.a[k, i], states[ndis + k][i]) for k in range(ncol) for i in range(dim)]
            u.holds(ctx, "NUTSChain::run: entry k is the state after exactly n_discard + k transitions", z3.And(conj), replay_run("nuts"), inst)
            u.holds(ctx, "NUTSChain::run leaves the chain at the last returned state",
                    z3.And([same(a, b) for a, b in zip(vec(me.get("position")), states[-1])]), replay_run("nuts"), inst)
    # NUTS::run = stack of the chains' individual results, in chain order
    eng.overrides = [(p, f) for (p, f) in eng.overrides if "NUTSChain" not in p.pattern]
    tags = {}

    def chain_run(e, callee, args):
        me = args[0]
        while isinstance(me, Ref):
            me = me.get()
        cid = me.get("m")
        vals = [e.ctx.fresh_real("c%d" % cid) for _ in range(args[1] * 2)]
        tags[cid] = vals
        return Ten(obj_array(vals, (args[1], 2)))
    eng.override(r"^NUTSChain::<.*>::run$", chain_run)
    nuts_run = eng.find_fn("NUTS::run")

    def run2(ctx):
        tags.clear()
        chains = [nuts_chain_struct(eng, m=c, position=tensor([Num(0), Num(0)])) for c in range(3)]
        s = Struct("NUTS", eng.src_index["structs"]["NUTS"], [RVec(chains)])
        r = eng.call_fn(nuts_run, [Ref.to(s), 2, 1])
        return r, dict(tags)
    for ctx, res in eng.explore(run2):
        u.paths += 1
        if isinstance(res, Exception):
            out.inconclusive.append("c09_nuts_run NUTS::run: %r" % (res,))
            continue
        r, tg = res
        u.holds(ctx, "NUTS::run returns shape [n_chains, n_collect, dim]", tuple(r.a.shape) == (3, 2, 2))
        if tuple(r.a.shape) == (3, 2, 2) and len(tg) == 3:
            conj = [same(r.a[c, k, i], tg[c][k * 2 + i]) for c in range(3) for k in range(2) for i in range(2)]
            u.holds(ctx, "the multi-chain NUTS runner returns exactly what its chains return individually, in chain order", z3.And(conj))
        else:
            u.holds(ctx, "every chain is run exactly once", False)
    u.done()


# ------------------------------------------------------------------------------------------------
# C10
# ------------------------------------------------------------------------------------------------
def replay_rcp(model=None):
    tried = []
    for (ncol, ndis, drop) in ((3, 1, "before"), (2, 0, "before"), (4, 2, "kept"), (1, 0, "before")):
        case = {"case": "run_chain_progress", "n_collect": ncol, "n_discard": ndis, "receiver": drop}
        nat = native(case)
        bad = [p for p, r in nat.items() if isinstance(r, dict) and (r.get("panic") or r.get("ok") is False or r.get("same_as_run") is False
                                                                      or r.get("steps") != ncol + ndis)]
        tried.append({"case": case, "native": nat})
        if bad:
            return True, {"case": case, "native": nat, "reproduced_in": bad}
    return False, {"tried": tried}


def stats_recorder(eng, store, pat=r"^<RunStats as From<.*>>::from$|^RunStats::from_f32_view$"):
    """RunStats::from is summarised; what it is computed from is recorded so that 'diagnostics equal to those computed from the
    returned draws' can be demanded"""
    def summary(e, callee, args):
        v = args[0]
        while isinstance(v, Ref):
            v = v.get()
        store.setdefault("stats_args", []).append(v)
        token = "summary#%d" % len(store["stats_args"])
        store["stats_obj"] = token
        return Struct("RunStats", ["ess", "rhat"], [Opaque("ess of " + token), Opaque("rhat of " + token)])
    eng.override(pat, summary)


def stats_obligation(u, ctx, store, sample_arr, stats_val, replay, inst):
    args = store.get("stats_args", [])
    tok = store.get("stats_obj")
    ok = (len(args) == 1 and isinstance(stats_val, Struct) and len(stats_val.fields) == 2
          and getattr(stats_val.fields[0], "what", None) == "ess of %s" % tok
          and getattr(stats_val.fields[1], "what", None) == "rhat of %s" % tok)
    if ok:
        a = getattr(args[0], "a", None)
        ok = a is not None and tuple(a.shape) == tuple(sample_arr.shape)
        if ok and a.size:
            # the summary works on an f32 view: on an f64 configuration that is the rounded returned draw
            ok = z3.And([z3.Or(same(x, y), same(x, mirsym.narrow32(y))) for x, y in zip(a.reshape(-1), sample_arr.reshape(-1))])
    u.holds(ctx, "the returned diagnostics are the summary computed from exactly the returned draws", ok, replay, inst)


def replay_progress_stats(sampler):
    def replay(model=None):
        tried = []
        for (k, a, b) in ((3, 8, 2), (2, 5, 0), (6, 4, 1)):
            case = {"case": "progress_stats", "sampler": sampler, "chains": k, "n_collect": a, "n_discard": b}
            nat = native(case)
            bad = [prof for prof, r in nat.items() if isinstance(r, dict) and (
                r.get("panic") or r.get("same_draws_as_run") is False or r.get("stats_from_returned_draws") is False)]
            tried.append({"case": case, "native": nat})
            if bad:
                return True, {"case": case, "native": nat, "reproduced_in": bad}
        return False, {"tried": tried[:1]}
    return replay


def c10_run_chain_progress(out, tier, seed):
    eng = mir_load.load_engine()
    install_chain_overrides(eng)
    cfgs = [(2, 1, 1), (1, 2, 2)] + ([(3, 1, 1), (2, 2, 2)] if tier == "thorough" else [])
    u = MUnit(out, "C10", "c10_run_chain_progress", eng,
              functions=["core::run_chain_progress (+ error closure)", "core::run_chain", "stats::ChainTracker::{new, step, stats}"],
              bounds=["(n_collect, n_discard, dim) in %s; the clock returns arbitrary non-decreasing instants, every send may "
                      "succeed or fail (receiver dropped before / during / after the run)" % (cfgs,)],
              assumptions=ASSUME + ["Instant::now is monotone; Sender::send never blocks (unbounded mpsc channel: std's contract)"],
              out_of_scope=["real thread schedules", "terminal output", "n_collect + n_discard = 0 (outside the property's range)"])
    for (ncol, ndis, dim) in cfgs:
        def run(ctx, ncol=ncol, ndis=ndis, dim=dim):
            ch = SymChain(ctx, 0, dim)
            from models_burn import Channel
            chan = Channel()
            tx = Struct("Sender", ["ch"], [chan])
            r = eng.call_fn("run_chain_progress", [Ref.to(ch), ncol, ndis, tx])
            return ch, chan, r
        for ctx, res in eng.explore(run, max_paths=4000):
            u.paths += 1
            if isinstance(res, Exception):
                out.inconclusive.append("c10_run_chain_progress %s: %r" % ((ncol, ndis, dim), res))
                continue
            ch, chan, r = res
            inst = "n_collect=%d n_discard=%d dim=%d, %d sends (%s)" % (ncol, ndis, dim, len(chan.sent), "".join("o" if x else "x" for x in chan.results))
            u.holds(ctx, "progress mode returns Ok whatever the reporter does", r.variant == "Ok", replay_rcp, inst)
            if r.variant != "Ok":
                continue
            a = r.fields[0].a
            u.holds(ctx, "progress mode returns shape [n_collect, dim]", tuple(a.shape) == (ncol, dim), replay_rcp, inst)
            u.holds(ctx, "progress mode performs exactly n_collect + n_discard transitions (a failed send changes nothing)",
                    ch.k == ncol + ndis, replay_rcp, inst)
            if tuple(a.shape) == (ncol, dim):
                conj = [same(a[k, i], ch.hist[ndis + k + 1][i]) for k in range(ncol) for i in range(dim)]
                u.holds(ctx, "progress mode returns exactly the draws run would return", z3.And(conj), replay_rcp, inst)
            u.holds(ctx, "the last transition always reports, so the reporter can see completion", len(chan.sent) >= 1, replay_rcp, inst)
            if chan.sent:
                last = chan.sent[-1]
                u.holds(ctx, "the final report carries n = n_collect + n_discard", last.get("n") == ncol + ndis, replay_rcp, inst)
    u.done()


def c10_precision(out, tier, seed):
    """element type x backend precision: no panic edge (`unwrap` on a failed `as_slice`) may be reachable."""
    eng = mir_load.load_engine()
    u = MUnit(out, "C10", "c10_precision", eng,
              functions=["NUTS::run_progress (body after the chain threads are joined; reporter thread summarised)",
                         "HMC::run_progress", "stats::MultiChainTracker::{stats, step, max_rhat}", "RunStats::from"],
              bounds=["element type T and backend float element in {f32, f64}^2; 2 chains, n_collect = 4, n_discard = 1, dim 1"],
              assumptions=ASSUME + ["TensorData::as_slice::<E>() is Err unless E is the element type the data was created with; "
                                    "Tensor::to_data yields the backend's float element type; TensorData::convert::<E> changes it",
                                    "thread::spawn'ed reporter is not executed (its termination is a separate unit); scoped threads run "
                                    "their closures to completion", "split_rhat_mean_ess / basic_stats summarised (decided by C11/C12)"],
              out_of_scope=["terminal output", "real threads"])
    combos = [("f32", "f32"), ("f64", "f64"), ("f32", "f64"), ("f64", "f32")]

    def summary(e, callee, args):
        return Struct("RunStats", ["ess", "rhat"], [Opaque("BasicStats"), Opaque("BasicStats")])
    eng.override(r"^<RunStats as From<.*>>::from$|^RunStats::from_f32_view$", summary)

    def chain_rp(e, callee, args):
        me = args[0]
        while isinstance(me, Ref):
            me = me.get()
        ncol = args[1]
        return Ok(Ten(obj_array([e.ctx.fresh_real("d") for _ in range(ncol)], (ncol, 1))))
    eng.override(r"^NUTSChain::<.*>::run_progress$", chain_rp)

    def hmc_step(e, callee, args):
        return Tuple([])
    eng.override(r"^HMC::<.*>::step$", hmc_step)
    nuts_rp = eng.find_fn("NUTS::run_progress")
    hmc_rp = eng.find_fn("HMC::run_progress")
    for (T, FE) in combos:
        eng.typemap["T"] = T
        eng.typemap["FloatElem"] = FE
        for name, fn in (("NUTS", nuts_rp), ("HMC", hmc_rp)):
            def run(ctx, name=name, fn=fn):
                if name == "NUTS":
                    chains = [nuts_chain_struct(eng, m=c, position=tensor([Num(0)])) for c in range(2)]
                    s = Struct("NUTS", eng.src_index["structs"]["NUTS"], [RVec(chains)])
                else:
                    s = hmc_struct(eng, step_size=Num(1), n_leapfrog=1,
                                   positions=Ten(obj_array([ctx.fresh_real("p") for _ in range(2)], (2, 1)), dtype="FloatElem"),
                                   last_grad_summands=Ten(obj_array([Num(0), Num(0)], (2, 1))), rng=Opaque("rng"))
                return eng.call_fn(fn, [Ref.to(s), 4, 1])
            n_ok = 0
            for ctx, res in eng.explore(run, max_paths=400):
                u.paths += 1
                inst = "%s::run_progress with T=%s on a %s backend" % (name, T, FE)

                def replay(model, name=name, T=T, FE=FE):
                    return replay_precision(name, T, FE)
                if isinstance(res, PanicPath):
                    u.holds(ctx, "progress mode succeeds for every element type / backend precision (no panic reachable)",
                            False, replay, inst + ": " + str(res)[:100])
                    continue
                if isinstance(res, Exception):
                    out.inconclusive.append("c10_precision %s: %r" % (inst, res))
                    continue
                n_ok += 1
                u.holds(ctx, "progress mode succeeds for every element type / backend precision (no panic reachable)",
                        res.variant == "Ok", replay, inst)
            u.reached("%s::run_progress completes for T=%s, backend %s" % (name, T, FE), n_ok)
    u.done()


def replay_precision(name, T, FE):
    case = {"case": "progress_precision", "sampler": name, "T": T, "backend": FE}
    nat = native(case)
    bad = [p for p, r in nat.items() if isinstance(r, dict) and (r.get("panic") or r.get("panicked"))]
    return bool(bad), {"case": case, "native": nat, "reproduced_in": bad}


def replay_reporter(model=None):
    tried = []
    for k in (6, 2, 7):
        case = {"case": "progress_terminates", "chains": k, "limit_s": 25}
        nat = native(case)
        bad = [p for p, r in nat.items() if isinstance(r, dict) and (r.get("timeout") or r.get("panic") or r.get("ok") is False
                                                                      or r.get("same_draws_as_run") is False)]
        tried.append({"case": case, "native": nat})
        if bad:
            return True, {"case": case, "native": nat, "reproduced_in": bad,
                          "what": "real run_progress with %d chains hangs / fails / returns other draws than run" % k}
    return False, {"tried": tried}


def c10_reporter(out, tier, seed):
    """ChainRunner::run_progress as a whole: workers (real run_chain_progress on uninterpreted chains) send their reports, the
    reporter closure (real code) is executed against every arrival schedule of those reports; it must terminate, only after it
    has seen every chain finish, and the returned draws must be the workers' draws in chain order."""
    eng = mir_load.load_engine()
    install_chain_overrides(eng)
    cfgs = [(1, 1), (2, 2), (3, 2), (6, 1)] + ([(7, 1), (6, 2), (11, 1)] if tier == "thorough" else [])
    u = MUnit(out, "C10", "c10_reporter", eng,
              functions=["ChainRunner::run_progress (+ all closures, incl. the reporter thread's body)", "core::run_chain_progress",
                         "stats::ChainTracker", "stats::collect_rhat"],
              bounds=["(chains, latest arrival iteration) in %s: every chain's final report arrives at an arbitrary reporter iteration "
                      "0..latest (all combinations = completion orders), dim 1, n_collect = 4, n_discard = 1; more chains than the 5 bars "
                      "are included" % (cfgs,)],
              assumptions=ASSUME + ["the reporter thread is executed when it is joined (after the workers), which is one legal "
                                    "interleaving for its input: the arrival schedule of reports is made arbitrary instead",
                                    "workers report once (clock below the 1 s threshold) and their sends succeed; indicatif is a no-op",
                                    "RunStats::from summarised"],
              out_of_scope=["wall-clock time, real scheduling, terminal output", "intermediate (non-final) reports"])

    state = {}
    stats_recorder(eng, state)
    # clock: constant (no periodic report), sends succeed and enqueue for the reporter
    eng.override(r"^Instant::now$", lambda e, c, a: Num(0))

    def send(e, callee, args):
        tx = args[0]
        while isinstance(tx, Ref):
            tx = tx.get()
        ch = tx.fields[0]
        ch.sent.append(args[1])
        ch.results.append(True)
        return Ok(Tuple([]))
    eng.override(r"^std::sync::mpsc::Sender::<.*>::send$", send)
    def spawn(e, callee, args):
        state["reporter"] = args[0]
        return Struct("JoinHandle", ["closure"], [args[0]])

    def join(e, callee, args):
        ctx = e.ctx
        # arrival schedule: fork per chain over 0..latest
        rxs = state["reporter"].fields[state["reporter"].names.index("rxs")]
        state["arrival"] = []
        for rx in rxs.items:
            ch = rx.fields[0]
            a = 0
            for k in range(state["latest"]):
                if ctx.branch(ctx.fresh_bool("late"), "arrival"):
                    a += 1
                else:
                    break
            state["arrival"].append(a)
            ch.queue = [(a, m) for m in ch.sent]
        ctx.sleeps = 0
        ctx.sleep_limit = state["latest"] + (len(rxs.items) + 4) // 5 + 2
        state["chans"] = [rx.fields[0] for rx in rxs.items]
        e.call_closure(state["reporter"], [])
        state["iterations"] = ctx.sleeps
        return Ok(Tuple([]))
    eng.override(r"^std::thread::spawn::<", spawn)
    eng.override(r"^JoinHandle::<.*>::join$", join)
    fn = "ChainRunner::run_progress"
    for (nc, latest) in cfgs:
        def run(ctx, nc=nc, latest=latest):
            state.clear()
            state["latest"] = latest
            chains = [SymChain(ctx, c, 1) for c in range(nc)]
            sampler = Struct("UserSampler", ["chains"], [RVec(chains)])
            r = eng.call_fn(fn, [Ref.to(sampler), 4, 1])
            return chains, r, dict(state)
        n_ok = 0
        for ctx, res in eng.explore(run, max_paths=6000):
            u.paths += 1
            if isinstance(res, mirsym.BoundHit):
                u.holds(ctx, "the reporter terminates within latest-arrival + ceil(chains/5) + 2 iterations for every completion order",
                        False, replay_reporter, "chains=%d: %s" % (nc, res))
                continue
            if isinstance(res, Exception):
                u.holds(ctx, "progress mode with a live reporter neither panics nor errs", False, replay_reporter, "chains=%d: %r" % (nc, res))
                continue
            chains, r, st = res
            n_ok += 1
            inst = "chains=%d arrivals=%s iterations=%s" % (nc, st.get("arrival"), st.get("iterations"))
            u.holds(ctx, "progress mode with a live reporter neither panics nor errs", r.variant == "Ok", replay_reporter, inst)
            u.holds(ctx, "the reporter terminates within latest-arrival + ceil(chains/5) + 2 iterations for every completion order",
                    True, None, inst)
            if r.variant == "Ok":
                a = r.fields[0].fields[0].a
                ok = tuple(a.shape) == (nc, 4, 1)
                u.holds(ctx, "run_progress returns shape [n_chains, n_collect, dim]", ok, replay_reporter, inst)
                if ok:
                    conj = [same(a[c, k, 0], chains[c].hist[1 + k + 1][0]) for c in range(nc) for k in range(4)]
                    u.holds(ctx, "run_progress returns exactly the draws run would return, in chain order", z3.And(conj), replay_reporter, inst)
                    stats_obligation(u, ctx, st, a, r.fields[0].fields[1], replay_progress_stats("mh"), inst)
        u.reached("reporter runs to completion with %d chains" % nc, n_ok)
    u.done()


def c10_reporter_nuts(out, tier, seed):
    """NUTS::run_progress as a whole (its own copy of the reporter loop), workers = real NUTSChain::run_progress with the
    transition summarised."""
    eng = mir_load.load_engine()
    cfgs = [(2, 2, "f32"), (6, 1, "f32"), (2, 1, "f64")] + ([(7, 1, "f32"), (3, 2, "f32"), (3, 1, "f64")] if tier == "thorough" else [])
    u = MUnit(out, "C10", "c10_reporter_nuts", eng,
              functions=["NUTS::run_progress (+ all closures, incl. the reporter thread's body)", "NUTSChain::run_progress", "NUTSChain::init_chain",
                         "stats::ChainTracker", "stats::collect_rhat"],
              bounds=["(chains, latest arrival iteration, element type = backend precision) in %s; dim 1, n_collect = 4, n_discard = 1; in the "
                      "f64 configurations every conversion to f32 is an uninterpreted rounding (a draw that went through f32 is not "
                      "provably the draw)" % (cfgs,)],
              assumptions=ASSUME + ["reporter executed at join time against an arbitrary arrival schedule of the final reports; workers "
                                    "report once and their sends succeed; indicatif no-op; RunStats::from and find_reasonable_epsilon summarised"],
              out_of_scope=["wall-clock time, real scheduling, terminal output", "intermediate (non-final) reports"])
    state = {}
    stats_recorder(eng, state)
    eng.override(r"^Instant::now$", lambda e, c, a: Num(0))
    hist = {}

    def step(e, callee, args):
        me = args[0]
        while isinstance(me, Ref):
            me = me.get()
        cid = me.get("t_0") - 10
        h = hist.setdefault(cid, [])
        v = e.ctx.fresh_real("q%d_%d" % (cid, len(h)))
        h.append(v)
        me.set("position", tensor([v]))
        return Tuple([])

    def fre(e, callee, args):
        x = e.ctx.fresh_real("eps0")
        e.ctx.assume(x.z() > 0)
        return x
    eng.override(r"^NUTSChain::<.*>::step$", step)
    eng.override(r"^find_reasonable_epsilon::<", fre)

    def send(e, callee, args):
        tx = args[0]
        while isinstance(tx, Ref):
            tx = tx.get()
        ch = tx.fields[0]
        ch.sent.append(args[1])
        ch.results.append(True)
        return Ok(Tuple([]))
    eng.override(r"^std::sync::mpsc::Sender::<.*>::send$", send)
    def spawn(e, callee, args):
        state["reporter"] = args[0]
        return Struct("JoinHandle", ["closure"], [args[0]])

    def join(e, callee, args):
        ctx = e.ctx
        rxs = state["reporter"].fields[state["reporter"].names.index("rxs")]
        state["arrival"] = []
        for rx in rxs.items:
            ch = rx.fields[0]
            a = 0
            for k in range(state["latest"]):
                if ctx.branch(ctx.fresh_bool("late"), "arrival"):
                    a += 1
                else:
                    break
            state["arrival"].append(a)
            ch.queue = [(a, m) for m in ch.sent]
        ctx.sleeps = 0
        ctx.sleep_limit = state["latest"] + (len(rxs.items) + 4) // 5 + 2
        e.call_closure(state["reporter"], [])
        state["iterations"] = ctx.sleeps
        return Ok(Tuple([]))
    eng.override(r"^std::thread::spawn::<", spawn)
    eng.override(r"^JoinHandle::<.*>::join$", join)
    fn = eng.find_fn("NUTS::run_progress")
    for (nc, latest, prec) in cfgs:
        eng.typemap["T"] = prec
        eng.typemap["FloatElem"] = prec
        eng.narrowing = prec == "f64"

        def run(ctx, nc=nc, latest=latest):
            import models_core
            state.clear()
            hist.clear()
            state["latest"] = latest
            ctx.assume(z3.And(models_core.EPS.z() > 0, models_core.EPS.z() < z3.RealVal("1/1000000")))
            inits = [ctx.fresh_real("q%d_init" % c) for c in range(nc)]
            # chain id is smuggled through t_0 (10 + id): the summarised transition does not read it
            chains = [nuts_chain_struct(eng, m=0, t_0=10 + c, epsilon=Num(-1), position=tensor([inits[c]]), rng=Opaque("rng")) for c in range(nc)]
            s = Struct("NUTS", eng.src_index["structs"]["NUTS"], [RVec(chains)])
            r = eng.call_fn(fn, [Ref.to(s), 4, 1])
            return inits, r, dict(state), {k: list(v) for k, v in hist.items()}
        n_ok = 0
        for ctx, res in eng.explore(run, max_paths=6000):
            u.paths += 1
            if isinstance(res, mirsym.BoundHit):
                u.holds(ctx, "the NUTS reporter terminates within latest-arrival + ceil(chains/5) + 2 iterations for every completion order",
                        False, replay_reporter_nuts, "chains=%d: %s" % (nc, res))
                continue
            if isinstance(res, Exception):
                u.holds(ctx, "NUTS progress mode with a live reporter neither panics nor errs", False, replay_reporter_nuts, "chains=%d: %r" % (nc, res))
                continue
            inits, r, st, hs = res
            n_ok += 1
            inst = "chains=%d arrivals=%s iterations=%s precision=%s" % (nc, st.get("arrival"), st.get("iterations"), prec)
            u.holds(ctx, "NUTS progress mode with a live reporter neither panics nor errs", r.variant == "Ok", replay_reporter_nuts, inst)
            u.holds(ctx, "the NUTS reporter terminates within latest-arrival + ceil(chains/5) + 2 iterations for every completion order",
                    True, None, inst)
            if r.variant == "Ok":
                a = r.fields[0].fields[0].a
                ok = tuple(a.shape) == (nc, 4, 1)
                u.holds(ctx, "NUTS::run_progress returns shape [n_chains, n_collect, dim]", ok, replay_reporter_nuts, inst)
                if ok:
                    # progress mode performs n_collect + n_discard transitions and keeps those with index >= n_discard:
                    # entry k is the state after n_discard + k + 1 transitions (run's trajectory shifted by its one-draw offset)
                    conj = [same(a[c, k, 0], hs[c][1 + k]) for c in range(nc) for k in range(4)]
                    u.holds(ctx, "NUTS::run_progress returns each chain's states after n_discard+k+1 transitions, in chain order",
                            z3.And(conj), replay_reporter_nuts, inst)
                    u.holds(ctx, "every NUTS chain performs exactly n_collect + n_discard transitions in progress mode",
                            all(len(hs[c]) == 5 for c in range(nc)), replay_reporter_nuts, inst)
                    stats_obligation(u, ctx, st, a, r.fields[0].fields[1], replay_progress_stats("nuts"), inst)
        u.reached("NUTS reporter runs to completion with %d chains (%s)" % (nc, prec), n_ok)
    eng.narrowing = False
    u.done()


def replay_reporter_nuts(model=None):
    tried = []
    for k, prec in ((6, "f32"), (2, "f32"), (2, "f64")):
        case = {"case": "progress_terminates_nuts", "chains": k, "limit_s": 40, "precision": prec}
        nat = native(case)
        bad = [p for p, r in nat.items() if isinstance(r, dict) and (r.get("timeout") or r.get("panic") or r.get("ok") is False
                                                                      or r.get("shifted_trajectory") is False)]
        tried.append({"case": case, "native": nat})
        if bad:
            return True, {"case": case, "native": nat, "reproduced_in": bad}
    return False, {"tried": tried}


def c07_parallel_closure(out, tier, seed):
    """Schedule independence, as far as the code decides it: the closure handed to rayon's par_iter_mut().map() captures
    nothing but the run lengths, and touches only the chain it is given."""
    eng = mir_load.load_engine()
    u = MUnit(out, "C07", "c07_parallel_closure", eng,
              functions=["ChainRunner::run (closure construction)", "NUTS::run (closure construction)"],
              bounds=["syntactic: every closure constructed in the two bodies"],
              assumptions=["rayon's contract: map() applies the closure to each element exactly once; results are collected in index "
                           "order; with a closure that captures no shared mutable state the result cannot depend on the thread count "
                           "or schedule (an argument from the contract, not a solver result about real threads)"],
              out_of_scope=["real thread schedules", "burn's internal thread-safety"])
    for name in ("ChainRunner::run", eng.find_fn("NUTS::run")):
        fn = eng.dump.get(name)
        caps = []
        for b in fn.blocks.values():
            for st in b.stmts:
                if st.rvalue.kind == "closure":
                    caps.append(sorted(n for n, _ in st.rvalue.args[1]))
        ok = bool(caps) and all(set(c) <= {"n_collect", "n_discard"} for c in caps)
        u.holds(None_ctx(eng), "the per-chain closure run in parallel captures only the run lengths (no shared mutable state)", ok,
                None, "%s captures %s" % (name.split("::")[-2:], caps))
    u.done()


def None_ctx(eng):
    return mirsym.Ctx(eng, [])


def c10_hmc_progress(out, tier, seed):
    eng = mir_load.load_engine()
    cfgs = [(2, 4, 1, 1, "f32"), (3, 4, 0, 2, "f32"), (2, 4, 1, 1, "f64")] + ([(2, 5, 3, 1, "f32"), (3, 4, 0, 2, "f64")] if tier == "thorough" else [])
    u = MUnit(out, "C10", "c10_hmc_progress", eng, functions=["HMC::run_progress (+ closures)", "stats::MultiChainTracker::{new, step, max_rhat, rhat, stats}"],
              bounds=["(chains, n_collect, n_discard, dim, T = backend element) in %s; in the f64 configurations every conversion to f32 is an "
                      "uninterpreted rounding" % (cfgs,)],
              assumptions=ASSUME + ["indicatif no-op; RunStats::from_f32_view summarised"], out_of_scope=["terminal output"])
    store = {}
    stats_recorder(eng, store)
    rp = replay_progress_stats("hmc")
    fn = eng.find_fn("HMC::run_progress")
    for (nc, ncol, ndis, dim, prec) in cfgs:
        hist = []
        eng.typemap["T"] = prec
        eng.typemap["FloatElem"] = prec
        eng.narrowing = prec == "f64"

        def step(e, callee, args, nc=nc, dim=dim):
            me = args[0]
            while isinstance(me, Ref):
                me = me.get()
            vals = [e.ctx.fresh_real("p%d" % len(hist)) for _ in range(nc * dim)]
            hist.append(vals)
            me.set("positions", Ten(obj_array(vals, (nc, dim)), dtype="FloatElem"))
            return Tuple([])
        eng.overrides = [(p, f) for (p, f) in eng.overrides if "HMC" not in p.pattern]
        eng.override(r"^HMC::<.*>::step$", step)

        def run(ctx, nc=nc, ncol=ncol, ndis=ndis, dim=dim):
            del hist[:]
            store.clear()
            p0 = [ctx.fresh_real("p_init") for _ in range(nc * dim)]
            me = hmc_struct(eng, step_size=Num(1), n_leapfrog=1, positions=Ten(obj_array(p0, (nc, dim)), dtype="FloatElem"), rng=Opaque("rng"))
            r = eng.call_fn(fn, [Ref.to(me), ncol, ndis])
            return r, [list(h) for h in hist]
        for ctx, res in eng.explore(run, max_paths=200):
            u.paths += 1
            inst = "chains=%d n_collect=%d n_discard=%d dim=%d precision=%s" % (nc, ncol, ndis, dim, prec)
            if isinstance(res, Exception):
                u.holds(ctx, "HMC progress mode neither panics nor errs", False, rp, inst + ": %r" % (res,))
                continue
            r, hs = res
            u.holds(ctx, "HMC progress mode neither panics nor errs", r.variant == "Ok", rp, inst)
            if r.variant != "Ok":
                continue
            a = r.fields[0].fields[0].a
            ok = tuple(a.shape) == (nc, ncol, dim) and len(hs) == ncol + ndis
            u.holds(ctx, "HMC::run_progress returns shape [n_chains, n_collect, dim] after exactly n_collect + n_discard transitions", ok, rp, inst)
            if ok:
                conj = [same(a[c, k, i], hs[ndis + k][c * dim + i]) for c in range(nc) for k in range(ncol) for i in range(dim)]
                u.holds(ctx, "HMC::run_progress returns exactly the draws run would return", z3.And(conj), rp, inst)
                stats_obligation(u, ctx, store, a, r.fields[0].fields[1], rp, inst)
    eng.narrowing = False
    u.done()


def c18_init_stream(out, tier, seed):
    """init helpers from MIR with a generator-state-aware draw model: a generator is (seed, position); the k-th draw of a
    generator seeded with s is the symbol stream(s, k); cloning a generator copies both.  Every entry of the result must be
    the next draw of the one seeded generator, in row-major order (hence pure, prefix-stable, no draw reused)."""
    eng = mir_load.load_engine()
    sizes = [(3, 2), (0, 3), (3, 0), (65, 1), (2, 70)] + ([(130, 2), (1, 300), (64, 64)] if tier == "thorough" else [])
    u = MUnit(out, "C18", "c18_init_stream", eng, functions=["core::init_with_seed", "core::init_det", "core::init", "core::_init (+ closures)"],
              bounds=["(n, d) in %s; seed symbolic over all of u64; f64 and f32 element types share the MIR" % (sizes,)],
              assumptions=["a SmallRng is identified by (seed, number of draws taken); StandardNormal.sample(rng) returns stream(seed, k) and "
                           "advances k; seed_from_u64 / from_os_rng create position 0; Clone copies seed and position"],
              out_of_scope=["that stream(s, .) is an i.i.d. standard-normal sequence (statistical)", "finiteness (rand_distr's contract)"])
    STREAM = z3.Function("normal_stream", z3.IntSort(), z3.IntSort(), z3.RealSort())

    def zi_(x):
        return z3.IntVal(x) if isinstance(x, int) else x

    def seed_from(e, c, a):
        return Struct("SmallRng", ["seed", "pos"], [a[0], 0])

    def from_os(e, c, a):
        s = e.ctx.fresh_int("os_seed")
        return Struct("SmallRng", ["seed", "pos"], [s, 0])

    def sample(e, c, a):
        rng = a[1]
        while isinstance(rng, Ref):
            rng = rng.get()
        v = Num(STREAM(zi_(rng.fields[0]), z3.IntVal(rng.fields[1])))
        rng.fields[1] += 1
        return v
    eng.override(r"SmallRng as .*SeedableRng>::seed_from_u64$", seed_from)
    eng.override(r"SmallRng as .*SeedableRng>::from_os_rng$", from_os)
    eng.override(r"^<StandardNormal as (rand_distr::)?Distribution<f64>>::sample::<", sample)
    eng.override(r"SmallRng as rand::Rng>::sample::<f64, StandardNormal>$", lambda e, c, a: sample(e, c, [None, a[0]]))
    fns = {"init_with_seed": "init_with_seed", "init_det": "init_det", "init": "init"}
    for (n, d) in sizes:
        for which in ("init_with_seed", "init_det", "init"):
            if which != "init_with_seed" and (n, d) not in ((3, 2), (65, 1)):
                continue

            def run(ctx, n=n, d=d, which=which):
                s = ctx.fresh_int("seed")
                ctx.assume(z3.And(s >= 0, s <= 2 ** 64 - 1))
                ctx.counters.pop("os_seed", None)
                if which == "init_with_seed":
                    r = eng.call_fn("init_with_seed", [n, d, s])
                    sd = s
                elif which == "init_det":
                    r = eng.call_fn("init_det", [n, d])
                    sd = z3.IntVal(42)
                else:
                    r = eng.call_fn("init", [n, d])
                    sd = z3.Int("os_seed_0")
                return r, sd
            for ctx, res in eng.explore(run):
                u.paths += 1
                inst = "%s(n=%d, d=%d)" % (which, n, d)
                if isinstance(res, Exception):
                    u.holds(ctx, "the initialiser does not fail", False, replay_init, inst + ": %r" % (res,))
                    continue
                r, sd = res
                ok = isinstance(r, RVec) and len(r.items) == n and all(isinstance(x, RVec) and len(x.items) == d for x in r.items)
                u.holds(ctx, "the initialiser returns exactly n vectors of length d", ok, replay_init, inst)
                if not ok:
                    continue
                conj = [Num.of(r.items[i].items[j]).z() == STREAM(sd, z3.IntVal(i * d + j)) for i in range(n) for j in range(d)]
                lab = {"init_with_seed": "entry (i,j) of init_with_seed is draw number i*d+j of the generator seeded with `seed` (pure, "
                                         "prefix-stable, no draw used twice)",
                       "init_det": "init_det equals init_with_seed with seed 42",
                       "init": "init uses one OS-seeded generator, entry (i,j) being its draw number i*d+j"}[which]
                u.holds(ctx, lab, z3.And(conj) if conj else True, replay_init, inst)
    u.done()


def replay_init(model=None):
    case = {"case": "init_props"}
    nat = native(case)
    bad = [p for p, r in nat.items() if isinstance(r, dict) and (r.get("panic") or any(v is False for v in r.values()))]
    return bool(bad), {"case": case, "native": nat, "reproduced_in": bad}
