"""Engine M harness support: obligations over explored paths, counterexample extraction, native replay."""
import json
import math
import os
import random
import subprocess
import time
from fractions import Fraction

import z3

import kani_engine
import mirsym
import models_core
from common import CACHE, Finding, env_offline, log, save_replay
from mirsym import Num


def zval(model, e):
    """Value of a z3 real/int/bool term in a model as Fraction / int / bool."""
    v = model.eval(e, model_completion=True)
    if z3.is_rational_value(v):
        return Fraction(v.numerator_as_long(), v.denominator_as_long())
    if z3.is_int_value(v):
        return v.as_long()
    if z3.is_true(v):
        return True
    if z3.is_false(v):
        return False
    if z3.is_algebraic_value(v):
        a = v.approx(20)
        return Fraction(a.numerator_as_long(), a.denominator_as_long())
    raise ValueError("no value for %s: %s" % (e, v))


# numeric back end used by oracles: the same Python function evaluates symbolically (Num) or in floats
def ln(x):
    return mirsym.num_fn("ln", x) if isinstance(x, Num) else (math.log(x) if x > 0 else (float("-inf") if x == 0 else float("nan")))


def exp(x):
    if isinstance(x, Num):
        return mirsym.num_fn("exp", x)
    try:
        return math.exp(x)
    except OverflowError:
        return float("inf")


def sqrt(x):
    return mirsym.num_fn("sqrt", x) if isinstance(x, Num) else (math.sqrt(x) if x >= 0 else float("nan"))


def powf(x, y):
    return mirsym.num_fn("powf", x, y) if isinstance(x, Num) or isinstance(y, Num) else math.pow(x, y)


_mreplay_built = {}
NATIVE_TIMEOUT_S = 240


def build_mreplay(profile):
    if profile in _mreplay_built:
        return _mreplay_built[profile]
    import shutil
    from common import REPO, VERIF
    mdir = os.path.join(VERIF, "engines", "mreplay")
    shutil.copyfile(os.path.join(REPO, "Cargo.lock"), os.path.join(mdir, "Cargo.lock"))
    cmd = ["cargo", "build", "--offline", "--target-dir", kani_engine.REPLAY_TARGET]
    if profile == "release":
        cmd.append("--release")
    p = subprocess.run(cmd, cwd=mdir, env=env_offline(), stdout=subprocess.PIPE, stderr=subprocess.STDOUT, text=True)
    ok = p.returncode == 0
    if not ok:
        log("mreplay build (%s) failed:\n%s" % (profile, p.stdout[-3000:]))
    path = os.path.join(kani_engine.REPLAY_TARGET, "release" if profile == "release" else "debug", "mreplay")
    _mreplay_built[profile] = path if ok else None
    return _mreplay_built[profile]


def native(case, profiles=("dev", "release")):
    """Run the real function natively on a concrete case: {profile: result-dict}."""
    out = {}
    os.makedirs(os.path.join(CACHE, "mcases"), exist_ok=True)
    path = os.path.join(CACHE, "mcases", "case-%d-%d.json" % (os.getpid(), random.randrange(1 << 30)))
    with open(path, "w") as fh:
        json.dump(case, fh, allow_nan=False)
    try:
        for prof in profiles:
            exe = build_mreplay(prof)
            if exe is None:
                out[prof] = {"error": "build failed"}
                continue
            try:
                p = subprocess.run([exe, path], stdout=subprocess.PIPE, stderr=subprocess.PIPE, text=True,
                                   env=dict(os.environ, RUST_BACKTRACE="0"), timeout=NATIVE_TIMEOUT_S)
            except subprocess.TimeoutExpired:
                # a native run that does not finish is neither a reproduction nor a refutation
                out[prof] = {"timeout": True, "limit_s": NATIVE_TIMEOUT_S}
                continue
            line = p.stdout.strip().splitlines()[-1] if p.stdout.strip() else ""
            try:
                out[prof] = json.loads(line)
            except Exception:
                if "parse case" in p.stderr or "read case" in p.stderr:
                    out[prof] = {"error": "replay harness could not read the case", "stderr": p.stderr.strip()[-300:]}
                else:
                    out[prof] = {"panic": True, "rc": p.returncode, "stderr": p.stderr.strip()[-400:]}
    finally:
        try:
            os.remove(path)
        except OSError:
            pass
    return out


def fnum(x):
    """JSON-able float from Fraction/int."""
    return float(x)


class MUnit:
    """One M-engine check: a set of obligations over the explored paths of some real functions."""

    def __init__(self, out, prop, name, eng, functions=(), bounds=(), assumptions=(), out_of_scope=()):
        self.out = out
        self.prop = prop
        self.name = name
        self.eng = eng
        self.t0 = time.time()
        self.n_obl = 0
        self.n_ok = 0
        self.paths = 0
        self.failed = []
        out.add_functions(functions)
        out.add_bounds(bounds)
        out.add_assumptions(assumptions)
        for x in out_of_scope:
            if x not in out.out_of_scope:
                out.out_of_scope.append(x)
        self.timeout_ms = 60000 if out.tier == "quick" else 600000

    def holds(self, ctx, label, formula, replay=None, sample=None, axioms=()):
        """Obligation: under the path condition (and axioms), `formula` holds for all symbolic inputs.
        On a counterexample `replay(model)` must reproduce it natively -> (bool reproduced, payload)."""
        self.n_obl += 1
        out = self.out
        if isinstance(formula, bool):
            neg = z3.BoolVal(not formula)
        else:
            neg = z3.Not(formula)
        for a in axioms:
            neg = z3.And(a, neg)
        res, model = self.eng.check_unsat(ctx, neg, self.timeout_ms)
        out.obligations += 1
        out.labelled.add(label)
        if len(out.samples) < 40 and not any(s.get("obligation") == label for s in out.samples):
            smp = {"engine": "M", "unit": self.name, "obligation": label, "status": "holds" if res == "unsat" else res}
            if sample:
                smp["instance"] = sample
            out.samples.append(smp)
        if res == "unsat":
            self.n_ok += 1
            return True
        if res == "unknown":
            out.inconclusive.append("%s: solver returned unknown for '%s'" % (self.name, label))
            return False
        # counterexample candidate
        key = "%s/%s" % (self.prop.lower(), kani_engine.slug(label))
        if any(f.key == key for f in out.findings) or key in [k for k, _ in self.failed]:
            return False
        self.failed.append((key, label))
        if replay is None:
            out.inconclusive.append("%s: counterexample for '%s' but no replay available" % (self.name, label))
            return False
        try:
            reproduced, payload = replay(model)
        except Exception as e:  # fail closed
            out.inconclusive.append("%s: replay of '%s' failed: %r" % (self.name, label, e))
            return False
        payload = dict(payload)
        payload.update({"property": self.prop, "engine": "M", "unit": self.name, "failed_obligation": label})
        path = save_replay(self.prop, "%s--%s" % (self.name, kani_engine.slug(label)[:40]), payload)
        if reproduced:
            out.findings.append(Finding(self.prop, key, "%s (unit %s; counterexample from z3 reproduced natively)" % (
                label, self.name), path))
        else:
            out.inconclusive.append("%s: counterexample for '%s' did not reproduce natively -- model/encoding problem, "
                                    "not reported as a violation; replay file %s" % (self.name, label, path))
        return False

    def equal(self, ctx, label, impl, spec, replay=None, sample=None, axioms=()):
        return self.holds(ctx, label, Num.of(impl).eq(Num.of(spec)), replay, sample, axioms)

    def reached(self, cond_desc, n):
        """reachability witness: at least one path satisfied the situation"""
        if n > 0:
            self.out.covers += 1
            self.out.labelled.add("reachable: " + cond_desc)
        else:
            self.out.inconclusive.append("%s: situation never reached: %s" % (self.name, cond_desc))

    def done(self):
        eng = self.eng
        self.out.units.append({
            "engine": "M", "unit": self.name, "paths": self.paths, "obligations": self.n_obl, "discharged": self.n_ok,
            "wall_s": round(time.time() - self.t0, 2), "z3_queries": eng.stats["queries"],
            "z3_time_s": round(eng.stats["solver_s"], 2), "bound_hits": eng.stats["bound_hits"],
            "feasibility_unknown": eng.stats["feas_unknown"],
            "mir_functions_executed": sorted(eng.functions_entered)[:60],
        })
        self.out.solver_s += eng.stats["solver_s"]
        self.out.add_assumptions(sorted("model: " + m for m in models_core.USED))


def approx_eq(a, b, rel=1e-4, abs_=1e-5):
    if a is None or b is None:
        return False
    if isinstance(a, float) and isinstance(b, float):
        if math.isnan(a) or math.isnan(b):
            return math.isnan(a) and math.isnan(b)
        if math.isinf(a) or math.isinf(b):
            return a == b
    return abs(a - b) <= abs_ + rel * max(abs(a), abs(b))
