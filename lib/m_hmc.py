"""Engine M checks for HMC: C02 (leapfrog + Metropolis test), C07 (no hidden randomness), C09 (HMC::run)."""
import re
from fractions import Fraction

import numpy as np
import z3

import mirsym
import mir_load
from m_nuts import R_ASSUME, beq, dot, fmin
from m_stats import z3util_vars
from mcheck import MUnit, approx_eq, exp, fnum, ln, native, zval
from mirsym import Num, Opaque, PanicPath, Ref, RVec, Struct, Tuple, Unmodelled, b_and, ite, zbool
from models_burn import Ten
from models_nd import elementwise, obj_array

HALF = Num(Fraction(1, 2))


class UFBatchTarget:
    """Row-wise uninterpreted target: logp_batch(X)[r] = LP(X[r,:]); gradient rows = dLP_i(X[r,:])."""

    def __init__(self, dim, tag="LPB", nan_mode=False):
        self.dim = dim
        self.lp = z3.Function(tag, *([z3.RealSort()] * (dim + 1)))
        self.gr = [z3.Function("d%s_%d" % (tag, i), *([z3.RealSort()] * (dim + 1))) for i in range(dim)]
        self.nan_mode = nan_mode
        self.lp_nan = z3.Function(tag + "_isnan", *([z3.RealSort()] * dim + [z3.BoolSort()]))
        self.gr_nan = z3.Function("d" + tag + "_isnan", *([z3.RealSort()] * dim + [z3.BoolSort()]))

    def pos_nan(self, row):
        n = None
        for x in row:
            n = mirsym.nan_or(n, Num.of(x).nan)
        return n

    def logp_is_nan(self, row):
        zs = [Num.of(x).z() for x in row]
        return mirsym.nan_or(self.lp_nan(*zs), self.pos_nan(row))

    def logp(self, row):
        zs = [Num.of(x).z() for x in row]
        if not self.nan_mode:
            return Num(self.lp(*zs))
        return Num(self.lp(*zs), self.logp_is_nan(row))

    def grad(self, row):
        zs = [Num.of(x).z() for x in row]
        if not self.nan_mode:
            return [Num(g(*zs)) for g in self.gr]
        n = mirsym.nan_or(self.gr_nan(*zs), self.pos_nan(row))
        return [Num(g(*zs), n) for g in self.gr]

    def grad_arr(self, a):
        out = np.empty(a.shape, dtype=object)
        for r in range(a.shape[0]):
            g = self.grad(list(a[r]))
            for i in range(a.shape[1]):
                out[r, i] = g[i]
        return out

    def install(self, eng):
        eng.overrides = [(p, f) for (p, f) in eng.overrides if "unnorm_logp_batch" not in p.pattern]

        def logp_batch(e, callee, args):
            pos = args[1]
            while isinstance(pos, Ref):
                pos = pos.get()
            a = pos.a
            vals = [self.logp(list(a[r])) for r in range(a.shape[0])]
            return Ten(obj_array(vals, (a.shape[0],)), prov=("logp", a.copy(), self.grad_arr))
        eng.override(r"^<GTarget as BatchedGradientTarget<T, B>>::unnorm_logp_batch$", logp_batch)


def hmc_struct(eng, **kw):
    """The sampler struct as the real constructor builds it (so fields added by a change keep their real initial
    values), with the given fields overridden."""
    order = eng.src_index["structs"]["HMC"]
    base = None
    pos = kw.get("positions")
    if pos is not None and eng.ctx is not None:
        try:
            rows = [RVec(list(pos.a[r])) for r in range(pos.a.shape[0])]
            base = eng.call_fn(eng.find_fn("HMC::new"), [Opaque("target"), RVec(rows), kw.get("step_size", Num(1)), kw.get("n_leapfrog", 1)])
        except Exception:
            base = None
    if isinstance(base, Struct) and base.names == list(order):
        for k, v in kw.items():
            base.set(k, v)
        return base
    return Struct("HMC", order, [kw.get(k, Opaque(k)) for k in order])


def ref_leapfrogs(T, x, p, eps, L):
    g = T.grad(x)
    for _ in range(L):
        p = [pi + gi * eps * HALF for pi, gi in zip(p, g)]
        x = [xi + pi * eps for xi, pi in zip(x, p)]
        g = T.grad(x)
        p = [pi + gi * eps * HALF for pi, gi in zip(p, g)]
    return x, p


def ham(T, x, p):
    return -T.logp(x) + dot(p, p) * HALF


def RP_HMC(model):
    import m_replay
    return m_replay.replay_hmc()


def c02_hmc_step(out, tier, seed):
    eng = mir_load.load_engine()
    mirsym.MUL_MODE["mode"] = "uf"
    configs = [(1, 1, 0), (1, 1, 1), (2, 2, 1), (2, 1, 2), (1, 2, 2), (2, 2, 2), (1, 1, 3)]
    if tier == "thorough":
        configs += [(2, 2, 3), (1, 3, 2), (3, 1, 1), (1, 1, 4), (3, 2, 2), (2, 3, 2), (1, 2, 4)]
    u = MUnit(out, "C02", "c02_hmc_step", eng,
              functions=["HMC::step (+ mask closure)", "HMC::leapfrog (+ its inplace closures)"],
              bounds=["(chains, dim, L) in %s; positions, step size, momenta, acceptance uniforms and the gradient carry "
                      "left by the previous step arbitrary reals; target and gradient uninterpreted per row" % (configs,)],
              assumptions=R_ASSUME + ["products of two symbolic reals are abstracted by a commutative uninterpreted product",
                                      "BatchedGradientTarget contract: row r of logp_batch depends on row r of the positions only"],
              out_of_scope=["rounding", "burn kernels / autodiff", "L, chains, dim beyond the listed sizes (loops are uniform)",
                            "which random stream the draws come from (C07)"])
    step = eng.find_fn("HMC::step")
    try:
        for (n, d, L) in configs:
            T = UFBatchTarget(d)
            T.install(eng)

            def run(ctx, n=n, d=d, L=L):
                X = [[ctx.fresh_real("x") for _ in range(d)] for _ in range(n)]
                stale = [[ctx.fresh_real("stale") for _ in range(d)] for _ in range(n)]
                eps = ctx.fresh_real("eps")
                me = hmc_struct(eng, step_size=eps, n_leapfrog=L,
                                positions=Ten(obj_array([v for r in X for v in r], (n, d))),
                                last_grad_summands=Ten(obj_array([v for r in stale for v in r], (n, d))),
                                rng=Struct("SmallRng", ["seed"], [Opaque("state")]))
                n0 = len(ctx.draws)
                eng.call_fn(step, [Ref.to(me)])
                return X, eps, me, ctx.draws[n0:]
            for ctx, res in eng.explore(run):
                u.paths += 1
                if isinstance(res, Exception):
                    out.inconclusive.append("c02_hmc_step %s: %r" % ((n, d, L), res))
                    continue
                X, eps, me, draws = res
                inst = "chains=%d dim=%d L=%d" % (n, d, L)
                normals = [x for k, x in draws if k.endswith("normal")]
                unis = [x for k, x in draws if k == "global_uniform"] or [x for k, x in draws if k == "uniform"]
                ok = len(normals) == n * d and len(unis) >= n
                u.holds(ctx, "a step draws one momentum per coordinate and one acceptance uniform per chain", ok, RP_HMC, inst)
                if not ok:
                    continue
                newpos = me.get("positions").a
                u.holds(ctx, "positions keep their shape", tuple(newpos.shape) == (n, d), RP_HMC, inst)
                for r in range(n):
                    p = normals[r * d:(r + 1) * d]
                    x1, p1 = ref_leapfrogs(T, X[r], p, eps, L)
                    dH = ham(T, X[r], p) - ham(T, x1, p1)
                    acc = ln(unis[-n:][r]).le(dH)
                    for i in range(d):
                        want = ite(acc, x1[i], X[r][i])
                        u.equal(ctx, "each chain ends at its L-step leapfrog end point iff ln u <= H(x,p) - H(x',p'), else at its old position",
                                newpos[r, i], want, RP_HMC, inst)
                        own = set(str(v.z()) for v in X[r] + p + [unis[-n:][r], eps])
                        used = set(str(v) for v in z3util_vars(Num.of(newpos[r, i]).z()))
                        u.holds(ctx, "rows of the batch never influence one another", used <= own, RP_HMC, inst)
                carry = me.get("last_grad_summands").a
                if L > 0:
                    pass
    finally:
        mirsym.MUL_MODE["mode"] = "exact"
    u.done()


def c02_reversible(out, tier, seed):
    eng = mir_load.load_engine()
    mirsym.MUL_MODE["mode"] = "exact"
    configs = [(1, 1, 1), (1, 2, 1), (1, 1, 2)]
    if tier == "thorough":
        configs += [(2, 2, 1), (1, 2, 2), (1, 1, 3)]
    u = MUnit(out, "C02", "c02_reversible", eng,
              functions=["HMC::leapfrog (+ its inplace closures)"],
              bounds=["(chains, dim, L) in %s; exact real multiplication" % (configs,)],
              assumptions=R_ASSUME, out_of_scope=["rounding ('up to rounding' in the statement)"])
    lf = eng.find_fn("HMC::leapfrog")
    for (n, d, L) in configs:
        T = UFBatchTarget(d)
        T.install(eng)

        def run(ctx, n=n, d=d, L=L):
            X = [[ctx.fresh_real("x") for _ in range(d)] for _ in range(n)]
            P = [[ctx.fresh_real("p") for _ in range(d)] for _ in range(n)]
            eps = ctx.fresh_real("eps")

            def carry(Xs):
                return Ten(obj_array([g * eps * HALF for r in Xs for g in T.grad(r)], (n, d)))
            me = hmc_struct(eng, step_size=eps, n_leapfrog=L, positions=Ten(obj_array([v for r in X for v in r], (n, d))),
                            last_grad_summands=carry(X), rng=Opaque("rng"))
            r1 = eng.call_fn(lf, [Ref.to(me), Ten(obj_array([v for r in X for v in r], (n, d))),
                                  Ten(obj_array([v for r in P for v in r], (n, d)))])
            x1, p1 = r1.fields[0].a, r1.fields[1].a
            # the carry a following step would install is eps/2 * grad at its current positions = x1
            me2 = hmc_struct(eng, step_size=eps, n_leapfrog=L, positions=Ten(x1.copy()),
                             last_grad_summands=carry([list(x1[r]) for r in range(n)]), rng=Opaque("rng"))
            r2 = eng.call_fn(lf, [Ref.to(me2), Ten(x1.copy()), Ten(elementwise(p1, lambda v: -v))])
            return X, P, r2.fields[0].a, r2.fields[1].a
        for ctx, res in eng.explore(run):
            u.paths += 1
            if isinstance(res, Exception):
                out.inconclusive.append("c02_reversible %s: %r" % ((n, d, L), res))
                continue
            X, P, x2, p2 = res
            inst = "chains=%d dim=%d L=%d" % (n, d, L)
            for r in range(n):
                for i in range(d):
                    u.equal(ctx, "integrating again from (x', -p') returns to the start position", x2[r, i], X[r][i], RP_HMC, inst)
                    u.equal(ctx, "integrating again from (x', -p') returns to the negated start momentum", p2[r, i], -P[r][i], RP_HMC, inst)
    u.done()


def c07_hmc_hidden_randomness(out, tier, seed):
    """2-safety, decided syntactically on the symbolic result: the new positions may mention draws of the sampler's
    own generator but none of the process-global burn stream."""
    eng = mir_load.load_engine()
    mirsym.MUL_MODE["mode"] = "uf"
    u = MUnit(out, "C07", "c07_hmc_hidden_randomness", eng,
              functions=["HMC::step", "HMC::leapfrog", "HMC::set_seed"],
              bounds=["chains=2, dim=1, L=1; all inputs symbolic"],
              assumptions=R_ASSUME + ["Tensor::random draws from burn's process-global generator (shared by every sampler and "
                                      "thread in the process); Rng::random / sample_iter draw from the generator passed to them"],
              out_of_scope=["thread schedules", "burn's internal thread-safety"])
    try:
        T = UFBatchTarget(1)
        T.install(eng)
        step = eng.find_fn("HMC::step")

        def run(ctx):
            X = [[ctx.fresh_real("x")] for _ in range(2)]
            eps = ctx.fresh_real("eps")
            me = hmc_struct(eng, step_size=eps, n_leapfrog=1, positions=Ten(obj_array([r[0] for r in X], (2, 1))),
                            last_grad_summands=Ten(obj_array([Num(0), Num(0)], (2, 1))),
                            rng=Struct("SmallRng", ["seed"], [Opaque("state")]))
            eng.call_fn(step, [Ref.to(me)])
            return me, list(ctx.draws)
        for ctx, res in eng.explore(run):
            u.paths += 1
            if isinstance(res, Exception):
                out.inconclusive.append("c07_hmc_hidden_randomness: %r" % (res,))
                continue
            me, draws = res
            glob = set(str(x.z()) for k, x in draws if k.startswith("global_"))
            own = set(str(x.z()) for k, x in draws if not k.startswith("global_"))
            used = set()
            for v in me.get("positions").a.reshape(-1):
                used |= set(str(t) for t in z3util_vars(Num.of(v).z()))

            def replay(model):
                return replay_hmc_seed()
            hit = sorted(used & glob)
            u.holds(ctx, "an HMC step uses no randomness other than the sampler's own seeded generator",
                    z3.BoolVal(not hit), replay, "process-global draws reaching the new positions: %s" % hit[:4])
            u.holds(ctx, "the sampler's own generator drives the step (its draws reach the new positions)",
                    z3.BoolVal(bool(used & own)), replay, None)
    finally:
        mirsym.MUL_MODE["mode"] = "exact"
    u.done()


def replay_hmc_seed():
    nat = native({"case": "hmc_same_seed_twice", "seed": 42, "n_collect": 3})
    bad = [p for p, r in nat.items() if isinstance(r, dict) and r.get("equal") is False]
    return bool(bad), {"case": {"case": "hmc_same_seed_twice", "seed": 42, "n_collect": 3}, "native": nat, "reproduced_in": bad,
                       "note": "two HMC samplers built from the same inputs and seed, run one after the other in one process"}



def RP_NAN_HMC(model):
    import m_replay
    return m_replay.replay_nan("hmc")


def c02_hmc_nan(out, tier, seed):
    return c14_hmc(out, tier, seed, prop="C02")


def c14_hmc(out, tier, seed, prop="C14"):
    eng = mir_load.load_engine()
    mirsym.MUL_MODE["mode"] = "uf"
    configs = [(2, 1, 1), (1, 2, 1), (1, 1, 2)] + ([(2, 2, 2), (1, 1, 3)] if tier == "thorough" else [])
    label = ("HMC never moves a chain to a state whose log-density is NaN (nor to NaN coordinates)" if prop == "C14" else
             "a proposal whose energy difference is NaN is not taken: `ln u <= H(x,p) - H(x',p')` is false on NaN")
    u = MUnit(out, prop, "c14_hmc" if prop == "C14" else "c02_hmc_nan", eng, functions=["HMC::step", "HMC::leapfrog"],
              bounds=["(chains, dim, L) in %s; target value and gradient may be NaN at any point; every row starts at a "
                      "non-NaN density" % (configs,)],
              assumptions=["N-mode: real arithmetic plus a NaN flag with IEEE semantics (ordered comparisons false on NaN, "
                           "arithmetic propagates); burn's greater_equal / mask_where follow them element-wise; a target "
                           "evaluated at a NaN position answers NaN", "-inf densities are covered as arbitrarily negative reals only"],
              out_of_scope=["overflow to +-inf inside burn kernels", "hangs"])
    step = eng.find_fn("HMC::step")
    try:
        for (n, d, L) in configs:
            T = UFBatchTarget(d, nan_mode=True)
            T.install(eng)

            def run(ctx, n=n, d=d, L=L):
                X = [[ctx.fresh_real("x") for _ in range(d)] for _ in range(n)]
                eps = ctx.fresh_real("eps")
                for r in X:
                    ctx.assume(z3.Not(T.logp_is_nan(r)))
                me = hmc_struct(eng, step_size=eps, n_leapfrog=L, positions=Ten(obj_array([v for r in X for v in r], (n, d))),
                                last_grad_summands=Ten(obj_array([ctx.fresh_real("stale") for _ in range(n * d)], (n, d))),
                                rng=Struct("SmallRng", ["seed"], [Opaque("state")]))
                eng.call_fn(step, [Ref.to(me)])
                return X, me
            for ctx, res in eng.explore(run):
                u.paths += 1
                if isinstance(res, Exception):
                    out.inconclusive.append("c14_hmc %s: %r" % ((n, d, L), res))
                    continue
                X, me = res
                newpos = me.get("positions").a
                for r in range(n):
                    u.holds(ctx, label,
                            z3.Not(T.logp_is_nan(list(newpos[r]))), RP_NAN_HMC, "chains=%d dim=%d L=%d row=%d" % (n, d, L, r))
    finally:
        mirsym.MUL_MODE["mode"] = "exact"
    u.done()


def c02_hmc_two_steps(out, tier, seed):
    """Two consecutive steps on the same sampler object: the second step -- which follows whatever mix of acceptances and
    rejections the first one produced -- must again be L leapfrogs + Metropolis test from the positions the first left."""
    eng = mir_load.load_engine()
    mirsym.MUL_MODE["mode"] = "uf"
    configs = [(2, 1, 1)] + ([(2, 1, 2), (3, 1, 1)] if tier == "thorough" else [])
    u = MUnit(out, "C02", "c02_hmc_two_steps", eng, functions=["HMC::new", "HMC::step (twice)", "HMC::leapfrog"],
              bounds=["(chains, dim, L) in %s; two steps; every accept/reject combination of the first step is a path or a "
                      "symbolic mask" % (configs,)],
              assumptions=R_ASSUME + ["products of two symbolic reals abstracted by a commutative uninterpreted product"],
              out_of_scope=["longer histories (sampler state is the positions + gradient carry, both covered here)"])
    step = eng.find_fn("HMC::step")
    try:
        for (n, d, L) in configs:
            T = UFBatchTarget(d)
            T.install(eng)

            def run(ctx, n=n, d=d, L=L):
                X = [[ctx.fresh_real("x") for _ in range(d)] for _ in range(n)]
                eps = ctx.fresh_real("eps")
                me = hmc_struct(eng, step_size=eps, n_leapfrog=L, positions=Ten(obj_array([v for r in X for v in r], (n, d))),
                                rng=Struct("SmallRng", ["seed"], [Opaque("state")]))
                cell = Ref.to(me)
                eng.call_fn(step, [cell])
                mid = me.get("positions").a.copy()
                n1 = len(ctx.draws)
                eng.call_fn(step, [cell])
                return eps, mid, me, ctx.draws[n1:]
            for ctx, res in eng.explore(run, max_paths=500):
                u.paths += 1
                if isinstance(res, Exception):
                    out.inconclusive.append("c02_hmc_two_steps %s: %r" % ((n, d, L), res))
                    continue
                eps, mid, me, draws = res
                inst = "chains=%d dim=%d L=%d, second step" % (n, d, L)
                normals = [x for k, x in draws if k.endswith("normal")]
                unis = [x for k, x in draws if k == "global_uniform"] or [x for k, x in draws if k == "uniform"]
                if len(normals) != n * d or len(unis) < n:
                    u.holds(ctx, "a step draws one momentum per coordinate and one acceptance uniform per chain", False, RP_HMC, inst)
                    continue
                newpos = me.get("positions").a
                for r in range(n):
                    x0 = list(mid[r])
                    p = normals[r * d:(r + 1) * d]
                    x1, p1 = ref_leapfrogs(T, x0, p, eps, L)
                    acc = ln(unis[-n:][r]).le(ham(T, x0, p) - ham(T, x1, p1))
                    for i in range(d):
                        u.equal(ctx, "a step that follows accepted and rejected rows is again L leapfrogs from the current position "
                                "(fresh gradient) plus the Metropolis test", newpos[r, i], ite(acc, x1[i], x0[i]), RP_HMC, inst)
    finally:
        mirsym.MUL_MODE["mode"] = "exact"
    u.done()
