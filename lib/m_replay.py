"""Native differential replay for HMC / NUTS counterexamples.

The solver's counterexample fixes *which* behaviour is wrong (an obligation over uninterpreted targets); it
is confirmed by running the real sampler code natively against the plain-f64 reference in mreplay (which
draws from a clone of the sampler's generator) on a batch of concrete cases built around the situations
the obligations distinguish: both directions, stopped / empty subtrees, divergence threshold, unstable
step sizes, warm-up boundary, repeated runs.  Only a reproduced discrepancy is reported."""
import math
import random

from mcheck import approx_eq, native

TARGETS = [
    {"kind": "gauss", "mean": [0.0, 1.0], "cov": [4.0, 2.0, 2.0, 3.0]},
    {"kind": "gauss", "mean": [0.0, 0.0], "cov": [1.0, 0.0, 0.0, 0.04]},
    {"kind": "rosenbrock", "a": 1.0, "b": 3.0},
]


def fl(x):
    if isinstance(x, str):
        return float(x.replace("NaN", "nan"))
    return float(x)


def vec_close(a, b, tol=1e-7):
    a, b = [fl(x) for x in a], [fl(x) for x in b]
    return len(a) == len(b) and all(approx_eq(x, y, tol, tol) or (x != x and y != y) for x, y in zip(a, b))


def lp_gauss(t, x):
    a, b, c, d = t["cov"]
    det = a * d - b * c
    dx, dy = x[0] - t["mean"][0], x[1] - t["mean"][1]
    quad = (dx * (d * dx - c * dy) + dy * (a * dy - b * dx)) / det
    return -(2 * math.log(2 * math.pi) + math.log(det)) / 2 - quad / 2


def lp(t, x):
    if t["kind"] == "gauss":
        return lp_gauss(t, x)
    return -((t["a"] - x[0]) ** 2 + t["b"] * (x[1] - x[0] ** 2) ** 2)


def build_tree_cases(rnd, n=120):
    cases = []
    for k in range(n):
        t = TARGETS[k % len(TARGETS)]
        pos = [round(rnd.uniform(-1.5, 1.5), 3), round(rnd.uniform(-1.5, 1.5), 3)]
        mom = [round(rnd.gauss(0, 1), 3), round(rnd.gauss(0, 1), 3)]
        joint0 = lp(t, pos) - 0.5 * (mom[0] ** 2 + mom[1] ** 2)
        eps = rnd.choice([0.05, 0.2, 0.37, 0.39, 0.6, 1.1, 2.5])
        off = rnd.choice([0.01, 0.3, 1.0, 2.5, 6.0, 20.0, 300.0, 999.0, 1001.0, 1500.0])
        cases.append({"case": "nuts_build_tree", "target": t, "position": pos, "momentum": mom, "logu": joint0 - off,
                      "v": rnd.choice([-1, 1]), "j": rnd.choice([0, 1, 1, 2, 2, 3]), "eps": eps, "joint0": joint0,
                      "seed": rnd.randrange(1, 10 ** 6)})
    return cases


def step_cases(rnd, n=60):
    cases = []
    adapts = [([0.7, 0.9, 0.1, 1.9], 3, 10), ([0.7, 0.9, 0.1, 1.9], 5, 2), ([0.37, 0.5, -0.2, 1.2], 2, 2),
              ([0.39, 0.45, 0.05, 1.0], 3, 2), ([1.3, 0.8, 0.3, 2.5], 1, 0), ([0.2, 0.3, 0.0, 0.7], 7, 3),
              # warm-up boundary: some transition has m_after == n_discard exactly
              ([0.6, 0.8, 0.1, 1.8], 1, 3), ([0.5, 0.7, -0.1, 1.6], 0, 1), ([0.8, 0.9, 0.2, 2.0], 2, 4)]
    for k in range(n):
        t = TARGETS[k % len(TARGETS)]
        ad, m, nd = adapts[k % len(adapts)]
        cases.append({"case": "nuts_step", "target": t, "position": [round(rnd.uniform(-1, 1), 3), round(rnd.uniform(-1, 1), 3)],
                      "seed": rnd.randrange(1, 10 ** 6), "delta": rnd.choice([0.6, 0.8, 0.95]), "adapt": ad, "m": m,
                      "n_discard": nd, "steps": 4})
    # frozen step size at extreme scales: after warm-up epsilon must be exactly the averaged iterate, however small or large
    # (one transition only: with a tiny step size the next transition would not end, the crate has no depth limit)
    for k, (eb, T_) in enumerate(((1e-18, 0), (3e-17, 1), (1e-9, 0), (2.5e3, 1))):
        cases.append({"case": "nuts_step", "target": TARGETS[T_], "position": [0.3, -0.2], "seed": 77 + k, "delta": 0.8,
                      "adapt": [0.5, eb, 0.1, 1.6], "m": 5, "n_discard": 2, "steps": 1})
    return cases


def hmc_cases(rnd, n=40):
    cases = []
    for k in range(n):
        t = TARGETS[k % len(TARGETS)]
        nch = rnd.choice([1, 2, 3])
        cases.append({"case": "hmc_step", "target": t,
                      "positions": [[round(rnd.uniform(-1, 1), 3), round(rnd.uniform(-1, 1), 3)] for _ in range(nch)],
                      "eps": rnd.choice([0.02, 0.1, 0.3, 0.45, 0.9]), "L": rnd.choice([0, 1, 2, 3, 5]),
                      "seed": rnd.randrange(1, 10 ** 6), "steps": 3})
    # step sizes so unstable that the leapfrog orbit leaves the float range: the proposal has non-finite coordinates and
    # must be rejected with the chain left exactly where it was
    for k in range(6):
        nch = [1, 2, 3][k % 3]
        cases.append({"case": "hmc_step", "target": [t for t in TARGETS if t["kind"] == "gauss"][0],
                      "positions": [[round(rnd.uniform(-1, 1), 3), round(rnd.uniform(-1, 1), 3)] for _ in range(nch)],
                      "eps": [1e160, 1e200, 1e120][k % 3], "L": [2, 3][k % 2], "seed": rnd.randrange(1, 10 ** 6), "steps": 2})
    return cases


GAMMA, KAPPA, T0 = 0.05, 0.75, 10


def adapt_expected(before, m_after, n_discard, delta, alpha, n_alpha):
    eps, ebar, hbar, mu = before
    eta = 1.0 / (m_after + T0)
    h = (1 - eta) * hbar + eta * (delta - alpha / n_alpha)
    if m_after <= n_discard:
        e = math.exp(mu - math.sqrt(m_after) / GAMMA * h)
        x = m_after ** (-KAPPA)
        eb = math.exp((1 - x) * math.log(ebar) + x * math.log(e))
        return [e, eb, h, mu]
    return [ebar, ebar, h, mu]


def run_batch(cases):
    res = native({"case": "batch", "cases": cases})
    return res


def replay_nuts(kind, seed=1):
    """kind: 'tree' (build_tree / transition vs Algorithm 6) or 'adapt' (dual averaging).  -> (reproduced, payload)"""
    rnd = random.Random(seed)
    cases = build_tree_cases(rnd) + step_cases(rnd) if kind == "tree" else step_cases(rnd, 90)
    nat = run_batch(cases)
    hits = []
    for prof, outs in nat.items():
        if not isinstance(outs, list):
            continue
        for case, o in zip(cases, outs):
            if not isinstance(o, dict):
                continue
            if o.get("panic"):
                hits.append((prof, case, o, "panic"))
                continue
            if case["case"] == "nuts_build_tree" and kind == "tree":
                a, b = o["real"], o["reference"]
                same = (a["n"] == b["n"] and a["s"] == b["s"] and a["na"] == b["na"] and approx_eq(fl(a["a"]), fl(b["a"]), 1e-7, 1e-7)
                        and all(vec_close(a[k], b[k]) for k in ("thm", "rm", "thp", "rp", "th1")))
                if not same:
                    hits.append((prof, case, o, "build_tree differs from Algorithm 6"))
            if case["case"] == "nuts_step":
                for st in o.get("steps", []):
                    pos_same = vec_close(st["real_position"], st["reference_position"])
                    if kind == "tree" and not pos_same:
                        hits.append((prof, case, st, "transition differs from Algorithm 6"))
                        break
                    if kind == "adapt" and pos_same and st["rng_in_step"]:
                        want = adapt_expected([fl(x) for x in st["before"]], st["m_after"], st["n_discard"], case["delta"],
                                              fl(st["reference_alpha"]), st["reference_n_alpha"])
                        got = [fl(x) for x in st["after"]]
                        if st["m_after"] != st["m_before"] + 1 or not all(
                                approx_eq(g, w, 1e-7, 0.0 if i < 2 else 1e-9) for i, (g, w) in enumerate(zip(got, want))):  # step sizes: relative only
                            hits.append((prof, case, dict(st, expected_after=want), "adaptation state differs from dual averaging"))
                            break
    if hits:
        prof, case, o, what = hits[0]
        return True, {"case": case, "native": o, "what": what, "reproduced_in": sorted(set(h[0] for h in hits)),
                      "n_discrepancies": len(hits), "n_cases": len(cases)}
    return False, {"n_cases": len(cases), "note": "no native discrepancy in the replay batch"}


def replay_hmc(seed=1):
    rnd = random.Random(seed)
    cases = hmc_cases(rnd)
    nat = run_batch(cases)
    hits = []
    for prof, outs in nat.items():
        if not isinstance(outs, list):
            continue
        for case, o in zip(cases, outs):
            if isinstance(o, dict) and o.get("panic"):
                hits.append((prof, case, o, "panic"))
            elif isinstance(o, dict) and "real" in o and not vec_close(o["real"], o["reference"], 1e-7):
                hits.append((prof, case, o, "HMC step differs from L leapfrogs + Metropolis test"))
    if hits:
        prof, case, o, what = hits[0]
        return True, {"case": case, "native": o, "what": what, "reproduced_in": sorted(set(h[0] for h in hits)),
                      "n_discrepancies": len(hits), "n_cases": len(cases)}
    return False, {"n_cases": len(cases), "note": "no native discrepancy in the replay batch"}


HALF = {"kind": "half"}


def lp_half(x):
    if x[0] < 0 or x[0] != x[0] or x[1] != x[1]:
        return float("nan")
    if x[0] == 0:
        return float("-inf")
    return math.log(x[0]) - 0.5 * (x[0] ** 2 + x[1] ** 2)


def replay_nan(kind, seed=1):
    """Direct replay of C14: started inside the support of a bounded-support target, the real sampler must never sit
    on a point whose log-density is NaN / -inf or that has non-finite coordinates."""
    rnd = random.Random(seed)
    cases = []
    for k in range(60):
        start = [[round(rnd.uniform(0.05, 1.2), 3), round(rnd.uniform(-1, 1), 3)] for _ in range(rnd.choice([1, 2, 3]))]
        if kind == "hmc":
            cases.append({"case": "hmc_step", "target": HALF, "positions": start, "eps": rnd.choice([0.3, 0.6, 0.9, 1.5]),
                          "L": rnd.choice([1, 2, 4]), "seed": rnd.randrange(1, 10 ** 6), "steps": 6})
        else:
            e = rnd.choice([0.4, 0.8, 1.3, 2.0])
            cases.append({"case": "nuts_step", "target": HALF, "position": start[0], "seed": rnd.randrange(1, 10 ** 6),
                          "delta": 0.8, "adapt": [e, e, 0.0, math.log(10 * e)], "m": 5, "n_discard": 2, "steps": 6})
    if kind == "hmc":
        for k in range(6):
            nch = [1, 2, 3][k % 3]
            cases.append({"case": "hmc_step", "target": [t for t in TARGETS if t["kind"] == "gauss"][0],
                          "positions": [[round(rnd.uniform(-1, 1), 3), round(rnd.uniform(-1, 1), 3)] for _ in range(nch)],
                          "eps": [1e160, 1e200, 1e120][k % 3], "L": [2, 3][k % 2], "seed": rnd.randrange(1, 10 ** 6), "steps": 2})
    nat = run_batch(cases)
    hits = []
    for prof, outs in nat.items():
        if not isinstance(outs, list):
            continue
        for case, o in zip(cases, outs):
            if not isinstance(o, dict):
                continue
            if o.get("panic"):
                hits.append((prof, case, o, "panic"))
                continue
            pts = []
            if kind == "hmc" and "real" in o:
                flat = [fl(x) for x in o["real"]]
                pts = [flat[i:i + 2] for i in range(0, len(flat), 2)]
            elif kind != "hmc":
                pts = [[fl(x) for x in st["real_position"]] for st in o.get("steps", [])]
            for pnt in pts:
                v = lp_half(pnt) if case["target"].get("kind") == "half" else 0.0
                if v != v or v == float("-inf") or any(c != c or abs(c) == float("inf") for c in pnt):
                    hits.append((prof, case, o, "chain sits at %s whose log-density is %s" % (pnt, v)))
                    break
    if hits:
        prof, case, o, what = hits[0]
        return True, {"case": case, "native": o, "what": what, "reproduced_in": sorted(set(h[0] for h in hits)),
                      "n_violating_cases": len(hits), "n_cases": len(cases)}
    return False, {"n_cases": len(cases), "note": "no native violation in the replay batch"}
