"""Model table, part 3: burn tensors (Autodiff<NdArray> API as used by mini-mcmc), mpsc, Instant.

Tensors are numpy object arrays of Num (float tensors) or of booleans (Bool tensors).  burn's kernels
and its autodiff are *modelled* by their documented element-wise / broadcasting semantics; the
gradient of a user target is an uninterpreted function family (see targets in m_nuts / m_hmc).
"""
import re

import numpy as np
import z3

import mirsym
import models_core
from mirsym import (NONE, Enum, Err, Num, Ok, Opaque, PanicPath, Ref, RVec, Some, Struct, Tuple, Unmodelled, b_and,
                    b_not, b_or, clone_val, ite, num_fn, zbool)
from models_core import PyIter, deref
from models_nd import elementwise, obj_array

MODELS = []


def model(pat, doc=""):
    def deco(fn):
        def wrapped(eng, callee, args, _fn=fn, _pat=pat, _doc=doc):
            models_core.USED.add("burn: " + (_doc or _pat))
            return _fn(eng, callee, args)
        MODELS.append((pat, wrapped))
        return fn
    return deco


class Ten:
    """burn Tensor<B, D, K>: values + provenance for the autodiff model."""
    __slots__ = ("a", "prov", "dtype")

    def __init__(self, a, prov=None, dtype="T"):
        if not isinstance(a, np.ndarray):
            a = np.array(a, dtype=object)
        self.a = a
        self.prov = prov  # ('logp', input Ten) for outputs of a target evaluation
        self.dtype = dtype

    def rust_clone(self):
        return Ten(self.a.copy(), self.prov, self.dtype)

    def __repr__(self):
        return "Ten(shape=%s)" % (self.a.shape,)


class TData:
    """burn TensorData: flat values, shape, element type name."""
    __slots__ = ("vals", "shape", "dtype")

    def __init__(self, vals, shape, dtype):
        self.vals = list(vals)
        self.shape = tuple(shape)
        self.dtype = dtype


def ten(v):
    v = deref(v)
    if isinstance(v, Ten):
        return v
    raise Unmodelled("expected tensor, got %r" % type(v).__name__)


def shape_arg(v):
    v = deref(v)
    if isinstance(v, Struct) and v.name == "Shape":
        v = v.fields[0]
        v = deref(v)
    if isinstance(v, RVec):
        return tuple(v.items)
    if isinstance(v, list):
        return tuple(v)
    if isinstance(v, Tuple):
        return tuple(v.fields)
    if isinstance(v, int):
        return (v,)
    raise Unmodelled("shape argument %r" % (v,))


def scalar(v):
    v = deref(v)
    if isinstance(v, (int, float)) and not isinstance(v, bool):
        return Num(v)
    return Num.of(v)


T1 = r"(?:burn::tensor::)?Tensor<.*>"
NUMERIC = r"^burn_tensor::tensor::api::(?:numeric|float|base|autodiff|bool|int)::<impl (?:burn::tensor::)?Tensor<.*>>::"
BASE = r"^burn::tensor::Tensor::<.*>::"


# --- construction -------------------------------------------------------------------------------
@model(r"^<<B as burn::prelude::Backend>::Device as std::default::Default>::default$|^<.*Device as Default>::default$", "Device::default (opaque)")
def m_device(eng, callee, args):
    return Opaque("Device")


@model(r"^burn::tensor::TensorData::new::<", "TensorData::new(values, shape): row-major values; panics unless len == product(shape)")
def m_tdata_new(eng, callee, args):
    v = deref(args[0])
    vals = list(v.items if isinstance(v, RVec) else v)
    sh = shape_arg(args[1])
    if int(np.prod(sh)) != len(vals):
        raise PanicPath("TensorData::new: shape does not match number of values")
    m = re.search(r"TensorData::new::<(\w+),", callee)
    return TData(vals, sh, m.group(1) if m else "T")


@model(BASE + r"from_data::<|" + NUMERIC + r"from_data::<", "Tensor::from_data: same values, same shape")
def m_from_data(eng, callee, args):
    d = deref(args[0])
    if isinstance(d, TData):
        return Ten(obj_array([Num.of(x) for x in d.vals], d.shape), dtype=d.dtype)
    if isinstance(d, RVec) or isinstance(d, list):
        items = d.items if isinstance(d, RVec) else d
        return Ten(obj_array([Num.of(x) for x in items], (len(items),)))
    raise Unmodelled("from_data(%r)" % type(d).__name__)


def flatten_nested(v):
    v = deref(v)
    if isinstance(v, (list, RVec)):
        items = v.items if isinstance(v, RVec) else v
        out, shape = [], None
        for it in items:
            f, sh = flatten_nested(it)
            out += f
            shape = sh
        return out, (len(items),) + (shape or ())
    return [Num.of(v)], ()


@model(NUMERIC + r"from_floats::<", "Tensor::from_floats(nested array)")
def m_from_floats(eng, callee, args):
    flat, sh = flatten_nested(args[0])
    return Ten(obj_array(flat, sh))


@model(BASE + r"empty::<|" + NUMERIC + r"empty::<", "Tensor::empty: unspecified contents (fresh symbols)")
def m_empty(eng, callee, args):
    sh = shape_arg(args[0])
    n = int(np.prod(sh)) if sh else 1
    return Ten(obj_array([eng.ctx.fresh_real("uninit") for _ in range(n)], sh))


@model(NUMERIC + r"zeros_like$", "zeros_like")
def m_zeros_like(eng, callee, args):
    t = ten(args[0])
    return Ten(elementwise(t.a, lambda x: Num(0)))


@model(NUMERIC + r"(ones|zeros)::<", "ones/zeros(shape)")
def m_ones(eng, callee, args):
    sh = shape_arg(args[0])
    n = int(np.prod(sh)) if sh else 1
    v = 1 if "::ones::<" in callee else 0
    return Ten(obj_array([Num(v) for _ in range(n)], sh))


@model(r"^burn::tensor::Shape::new::<", "Shape::new(dims)")
def m_shape_new(eng, callee, args):
    return Struct("Shape", ["dims"], [RVec(list(shape_arg(args[0])))])


@model(NUMERIC + r"random::<", "Tensor::random: one fresh draw per element from the PROCESS-GLOBAL burn generator "
       "(logged as 'global_normal' / 'global_uniform' draws, distinct from the sampler-owned SmallRng)")
def m_random(eng, callee, args):
    sh = shape_arg(args[0])
    dist = deref(args[1])
    kind = "global_normal" if "Normal" in getattr(dist, "name", "") else "global_uniform"
    n = int(np.prod(sh)) if sh else 1
    vals = []
    for _ in range(n):
        x = eng.ctx.fresh_real(kind)
        if kind == "global_uniform":
            eng.ctx.assume(z3.And(x.z() >= 0, x.z() < 1))
        eng.ctx.draws.append((kind, x))
        vals.append(x)
    return Ten(obj_array(vals, sh))


# --- shape ops ----------------------------------------------------------------------------------
@model(BASE + r"dims$", "dims()")
def m_dims(eng, callee, args):
    return list(ten(args[0]).a.shape)


@model(BASE + r"shape$", "shape()")
def m_shape(eng, callee, args):
    return Struct("Shape", ["dims"], [RVec(list(ten(args[0]).a.shape))])


@model(r"^<(?:burn::tensor::)?Tensor<.*> as Clone>::clone$", "Tensor::clone")
def m_clone(eng, callee, args):
    t = ten(args[0])
    return Ten(t.a.copy(), t.prov, t.dtype)


@model(NUMERIC + r"(detach|require_grad|set_require_grad|inner)$|" + NUMERIC + r"from_inner$", "detach/require_grad/inner/from_inner: same values")
def m_detach(eng, callee, args):
    t = ten(args[0])
    keep = t.prov if not callee.endswith("detach") else None
    return Ten(t.a, keep, t.dtype)


@model(BASE + r"unsqueeze::<|" + BASE + r"unsqueeze_dim::<", "unsqueeze / unsqueeze_dim")
def m_unsqueeze(eng, callee, args):
    t = ten(args[0])
    if "unsqueeze_dim" in callee:
        return Ten(np.expand_dims(t.a, args[1]), None, t.dtype)
    m = re.search(r"unsqueeze::<(\d+)>", callee)
    d2 = int(m.group(1))
    a = t.a
    while a.ndim < d2:
        a = np.expand_dims(a, 0)
    return Ten(a, None, t.dtype)


@model(BASE + r"squeeze::<", "squeeze(dim): the dimension must have size 1")
def m_squeeze(eng, callee, args):
    t = ten(args[0])
    if t.a.shape[args[1]] != 1:
        raise PanicPath("squeeze: dimension size is not 1")
    return Ten(np.squeeze(t.a, axis=args[1]), None, t.dtype)


@model(BASE + r"reshape::<", "reshape (row-major; -1 infers)")
def m_reshape(eng, callee, args):
    t = ten(args[0])
    sh = shape_arg(args[1])
    try:
        return Ten(t.a.reshape(sh), None, t.dtype)
    except ValueError:
        raise PanicPath("reshape: incompatible shape")


@model(BASE + r"flatten::<", "flatten(start, end)")
def m_flatten(eng, callee, args):
    t = ten(args[0])
    s, e = args[1], args[2]
    sh = t.a.shape
    new = sh[:s] + (int(np.prod(sh[s:e + 1])),) + sh[e + 1:]
    return Ten(t.a.reshape(new), None, t.dtype)


@model(BASE + r"expand::<", "expand (broadcast)")
def m_expand(eng, callee, args):
    t = ten(args[0])
    sh = shape_arg(args[1])
    try:
        return Ten(np.broadcast_to(t.a, sh).copy(), None, t.dtype)
    except ValueError:
        raise PanicPath("expand: incompatible shape")


@model(BASE + r"permute$|" + BASE + r"permute::<", "permute(axes)")
def m_permute(eng, callee, args):
    t = ten(args[0])
    axes = shape_arg(args[1])
    return Ten(np.transpose(t.a, axes), None, t.dtype)


def ranges_arg(v):
    v = deref(v)
    items = v.items if isinstance(v, RVec) else v
    out = []
    for r in items:
        r = deref(r)
        if isinstance(r, Struct) and r.name == "Range":
            out.append(slice(r.fields[0], r.fields[1]))
        elif isinstance(r, tuple) and r[0] == "bslice":
            out.append(slice(r[1], r[2]))
        else:
            raise Unmodelled("slice range %r" % (r,))
    return out


@model(r"^<burn::tensor::Slice as From<std::ops::Range<\w+>>>::from$", "Slice::from(range)")
def m_slice_from(eng, callee, args):
    r = args[0]
    return ("bslice", r.fields[0], r.fields[1])


@model(BASE + r"slice::<", "slice(ranges): panics when out of bounds")
def m_slice(eng, callee, args):
    t = ten(args[0])
    v = deref(args[1])
    rs = ranges_arg(v if isinstance(v, (list, RVec)) else [v])
    for k, s in enumerate(rs):
        if s.start < 0 or s.stop > t.a.shape[k] or s.start > s.stop:
            raise PanicPath("slice: range out of bounds")
    return Ten(t.a[tuple(rs)].copy(), None, t.dtype)


@model(BASE + r"slice_assign::<", "slice_assign(ranges, values): values must have the shape of the ranges")
def m_slice_assign(eng, callee, args):
    t = ten(args[0])
    rs = ranges_arg(args[1])
    v = ten(args[2])
    for k, s in enumerate(rs):
        if s.start < 0 or s.stop > t.a.shape[k] or s.start > s.stop:
            raise PanicPath("slice_assign: range out of bounds")
    want = tuple(s.stop - s.start for s in rs) + t.a.shape[len(rs):]
    if tuple(v.a.shape) != want:
        raise PanicPath("slice_assign: value shape %s does not match ranges %s" % (v.a.shape, want))
    a = t.a.copy()
    a[tuple(rs)] = v.a
    return Ten(a, None, t.dtype)


@model(BASE + r"stack::<", "Tensor::stack(tensors, dim): all shapes equal")
def m_stack(eng, callee, args):
    v = deref(args[0])
    ts = [ten(x) for x in (v.items if isinstance(v, RVec) else v)]
    if not ts:
        raise PanicPath("stack of no tensors")
    if any(x.a.shape != ts[0].a.shape for x in ts):
        raise PanicPath("stack: shapes differ")
    return Ten(np.stack([x.a for x in ts], axis=args[1]))


@model(BASE + r"inplace::<", "inplace(f): replaces the tensor by f(tensor)")
def m_inplace(eng, callee, args):
    r = args[0]
    cur = r.get()
    new = eng.call_closure(args[1], [cur])
    r.set(new)
    return Tuple([])


# --- arithmetic ---------------------------------------------------------------------------------
def binop(t1, t2, f):
    a = t1.a if isinstance(t1, Ten) else t1
    b = t2.a if isinstance(t2, Ten) else t2
    if isinstance(a, np.ndarray) and isinstance(b, np.ndarray):
        try:
            np.broadcast_shapes(a.shape, b.shape)
        except ValueError:
            raise PanicPath("tensor shapes do not broadcast: %s vs %s" % (a.shape, b.shape))
    return Ten(f(a, b))


@model(r"^<(?:burn::tensor::)?Tensor<[^>]*> as (?:std::ops::)?(Add|Sub|Mul|Div)(<.*>)?>::(add|sub|mul|div)$", "tensor (op) tensor | scalar, element-wise with broadcasting")
def m_arith(eng, callee, args):
    a = deref(args[0])
    b = deref(args[1])
    if not isinstance(b, Ten):
        b = scalar(b)
    if not isinstance(a, Ten):
        a = scalar(a)
    op = callee.rsplit("::", 1)[1]
    return binop(a, b, {"add": lambda x, y: x + y, "sub": lambda x, y: x - y, "mul": lambda x, y: x * y,
                        "div": lambda x, y: x / y}[op])


@model(NUMERIC + r"(add|sub|mul|div)$", "tensor.add/sub/mul/div(tensor)")
def m_arith_m(eng, callee, args):
    return m_arith(eng, callee, args)


@model(NUMERIC + r"(add_scalar|sub_scalar|mul_scalar|div_scalar)::<", "tensor (op) scalar")
def m_scalar_ops(eng, callee, args):
    t = ten(args[0])
    s = scalar(args[1])
    op = re.search(r"::(add|sub|mul|div)_scalar::<", callee).group(1)
    f = {"add": lambda x: x + s, "sub": lambda x: x - s, "mul": lambda x: x * s, "div": lambda x: x / s}[op]
    return Ten(elementwise(t.a, f))


@model(r"^<(?:burn::tensor::)?Tensor<[^>]*> as (?:std::ops::)?Neg>::neg$|" + NUMERIC + r"neg$", "element-wise negation")
def m_neg(eng, callee, args):
    return Ten(elementwise(ten(args[0]).a, lambda x: -x))


@model(NUMERIC + r"powf_scalar::<|" + NUMERIC + r"powi_scalar::<", "powf_scalar/powi_scalar with exponent 2 = x*x (other exponents: uninterpreted)")
def m_pow_scalar(eng, callee, args):
    t = ten(args[0])
    e = scalar(args[1])
    if e.concrete and e.v == 2:
        return Ten(elementwise(t.a, lambda x: x * x))
    if e.concrete and e.v == 1:
        return Ten(t.a.copy())
    return Ten(elementwise(t.a, lambda x: num_fn("powf", x, e)))


@model(NUMERIC + r"sum$", "sum of all elements -> shape [1]")
def m_sum(eng, callee, args):
    t = ten(args[0])
    acc = Num(0)
    for x in t.a.reshape(-1):
        acc = acc + x
    return Ten(obj_array([acc], (1,)))


@model(NUMERIC + r"sum_dim$", "sum_dim(d): keeps the dimension with size 1")
def m_sum_dim(eng, callee, args):
    t = ten(args[0])
    s = t.a.sum(axis=args[1], keepdims=True)
    return Ten(s)


@model(NUMERIC + r"matmul$", "matmul of rank-2 tensors")
def m_matmul(eng, callee, args):
    a, b = ten(args[0]).a, ten(args[1]).a
    if a.ndim != 2 or b.ndim != 2 or a.shape[1] != b.shape[0]:
        raise PanicPath("matmul: incompatible shapes")
    return Ten(a.dot(b))


@model(NUMERIC + r"log$", "element-wise ln (uninterpreted)")
def m_log(eng, callee, args):
    return Ten(elementwise(ten(args[0]).a, lambda x: num_fn("ln", x)))


@model(NUMERIC + r"exp$", "element-wise exp (uninterpreted)")
def m_exp(eng, callee, args):
    return Ten(elementwise(ten(args[0]).a, lambda x: num_fn("exp", x)))


# --- comparisons / masks ------------------------------------------------------------------------
def bool_ten(a):
    return Ten(a, None, "bool")


@model(NUMERIC + r"(greater_equal|greater|lower|lower_equal|equal)$", "element-wise comparison -> Bool tensor (R-mode)")
def m_cmp(eng, callee, args):
    a, b = ten(args[0]).a, ten(args[1]).a
    op = callee.rsplit("::", 1)[1]
    f = {"greater_equal": lambda x, y: x.ge(y), "greater": lambda x, y: x.gt(y), "lower": lambda x, y: x.lt(y),
         "lower_equal": lambda x, y: x.le(y), "equal": lambda x, y: x.eq(y)}[op]
    out = np.empty(a.size, dtype=object)
    for i, (x, y) in enumerate(zip(a.reshape(-1), np.broadcast_to(b, a.shape).reshape(-1))):
        out[i] = f(x, y)
    return bool_ten(out.reshape(a.shape))


@model(NUMERIC + r"(greater_equal_elem|greater_elem|lower_elem|lower_equal_elem|equal_elem)::<", "comparison with a scalar -> Bool tensor")
def m_cmp_elem(eng, callee, args):
    a = ten(args[0]).a
    s = scalar(args[1])
    op = re.search(r"::(\w+)_elem::<", callee).group(1)
    f = {"greater_equal": lambda x: x.ge(s), "greater": lambda x: x.gt(s), "lower": lambda x: x.lt(s),
         "lower_equal": lambda x: x.le(s), "equal": lambda x: x.eq(s)}[op]
    return bool_ten(elementwise(a, f))


@model(NUMERIC + r"is_nan$", "is_nan: false everywhere in R-mode")
def m_is_nan(eng, callee, args):
    return bool_ten(elementwise(ten(args[0]).a, lambda x: Num.of(x).is_nan()))


@model(NUMERIC + r"bool_or$|" + NUMERIC + r"bool_and$", "Bool tensor or/and")
def m_bool_or(eng, callee, args):
    a, b = ten(args[0]).a, ten(args[1]).a
    f = b_or if callee.endswith("bool_or") else b_and
    out = np.empty(a.size, dtype=object)
    for i, (x, y) in enumerate(zip(a.reshape(-1), b.reshape(-1))):
        out[i] = f(x, y)
    return bool_ten(out.reshape(a.shape))


@model(NUMERIC + r"float$|" + BASE + r"float$|" + NUMERIC + r"int$|" + BASE + r"int$", "Bool/Int tensor -> numeric tensor: true = 1, false = 0")
def m_bool_float(eng, callee, args):
    a = ten(args[0]).a

    def conv(x):
        if isinstance(x, Num):
            return x
        if isinstance(x, bool):
            return Num(1 if x else 0)
        if isinstance(x, z3.BoolRef):
            return Num(z3.If(x, z3.RealVal(1), z3.RealVal(0)))
        return Num.of(x)
    return Ten(elementwise(a, conv))


@model(NUMERIC + r"bool_not$", "Bool tensor not")
def m_bool_not(eng, callee, args):
    return bool_ten(elementwise(ten(args[0]).a, b_not))


@model(BASE + r"any$|" + BASE + r"all$", "any/all -> Bool tensor of shape [1]")
def m_any(eng, callee, args):
    a = ten(args[0]).a
    acc = callee.endswith("all")
    for x in a.reshape(-1):
        acc = b_and(acc, x) if callee.endswith("all") else b_or(acc, x)
    return bool_ten(obj_array([acc], (1,)))


@model(NUMERIC + r"mask_where$", "mask_where(mask, source): source where mask is true, self elsewhere (never a blend)")
def m_mask_where(eng, callee, args):
    t, mask, src = ten(args[0]).a, ten(args[1]).a, ten(args[2]).a
    if not (t.shape == mask.shape == src.shape):
        raise PanicPath("mask_where: shapes differ")
    out = np.empty(t.size, dtype=object)
    for i, (x, m, s) in enumerate(zip(t.reshape(-1), mask.reshape(-1), src.reshape(-1))):
        out[i] = ite(m, s, x)
    return Ten(out.reshape(t.shape))


# --- leaving the tensor world -------------------------------------------------------------------
@model(BASE + r"into_scalar$", "into_scalar: the single element (panics otherwise)")
def m_into_scalar(eng, callee, args):
    a = ten(args[0]).a
    if a.size != 1:
        raise PanicPath("into_scalar on a tensor with %d elements" % a.size)
    return a.reshape(-1)[0]


def _narrows(eng, src, dst):
    """does converting element type `src` to `dst` lose precision in this engine's configuration?"""
    if not getattr(eng, "narrowing", False):
        return False
    src = eng.typemap.get(src, src)
    dst = eng.typemap.get(dst, dst)
    return src == "f64" and dst == "f32"


@model(r"as ToElement>::to_f64$|as ToElement>::to_f32$|^<\w+ as ToElement>::to_f32$", "ToElement::to_f64/to_f32 (R-mode identity; "
       "f64 -> f32 is an uninterpreted rounding when the engine runs an f64 configuration with narrowing on)")
def m_to_f64(eng, callee, args):
    v = Num.of(deref(args[0]))
    m = re.match(r"^<(\w+) as (?:\w+::)*ToElement>::to_f32$", callee)
    if m and _narrows(eng, m.group(1), "f32"):
        return mirsym.narrow32(v)
    return v


@model(r"as ToElement>::to_bool$", "ToElement::to_bool")
def m_to_bool(eng, callee, args):
    return deref(args[0])


@model(BASE + r"to_data$|" + BASE + r"into_data$", "to_data: row-major values tagged with the backend's element type")
def m_to_data(eng, callee, args):
    t = ten(args[0])
    return TData(list(t.a.reshape(-1)), t.a.shape, eng.typemap.get("FloatElem", "T"))


@model(r"^burn::tensor::TensorData::iter::<", "TensorData::iter::<E>: the values converted to E")
def m_tdata_iter(eng, callee, args):
    d = deref(args[0])
    m = re.search(r"iter::<(\w+)>", callee)
    if m and _narrows(eng, d.dtype, m.group(1)):
        return PyIter([mirsym.narrow32(v) for v in d.vals])
    return PyIter(list(d.vals))


@model(r"^burn::tensor::TensorData::as_slice::<", "TensorData::as_slice::<E>: Err unless E is the stored element type")
def m_tdata_as_slice(eng, callee, args):
    d = deref(args[0])
    m = re.search(r"as_slice::<(\w+)>", callee)
    want = m.group(1) if m else "T"
    want = eng.typemap.get(want, want)
    have = eng.typemap.get(d.dtype, d.dtype)
    if want != have:
        return Err(Opaque("DataError::TypeMismatch"))
    return Ok(Ref.to(RVec(list(d.vals))))


@model(r"^burn::tensor::TensorData::convert::<", "TensorData::convert::<E>: same values, element type E")
def m_tdata_convert(eng, callee, args):
    d = deref(args[0])
    m = re.search(r"convert::<(\w+)>", callee)
    if m and _narrows(eng, d.dtype, m.group(1)):
        return TData([mirsym.narrow32(v) for v in d.vals], d.shape, m.group(1))
    return TData(d.vals, d.shape, m.group(1) if m else d.dtype)


# --- autodiff (modelled, not verified) ----------------------------------------------------------
class Grads:
    def __init__(self, of):
        self.of = of


@model(NUMERIC + r"backward$", "backward(): gradients of the tensor it is called on")
def m_backward(eng, callee, args):
    return Grads(ten(args[0]))


@model(NUMERIC + r"grad$", "x.grad(&grads): Some(d out/d x) when `out` was computed from exactly this x by the target "
       "(the gradient itself is an uninterpreted function family of the target)")
def m_grad(eng, callee, args):
    x = ten(args[0])
    g = deref(args[1])
    out = g.of
    if out.prov is None or out.prov[0] != "logp":
        return NONE()
    src = out.prov[1]
    if src.shape != x.a.shape:
        return NONE()
    for p, q in zip(src.reshape(-1), x.a.reshape(-1)):
        if not Num.of(p).z().eq(Num.of(q).z()):
            return NONE()
    return Some(Ten(out.prov[2](x.a)))


# --- rng construction ---------------------------------------------------------------------------
@model(r"^<rand::prelude::SmallRng as rand::SeedableRng>::from_os_rng$|^<.*SmallRng as .*SeedableRng>::from_os_rng$", "SmallRng::from_os_rng: generator with an OS-entropy state (opaque)")
def m_from_os_rng(eng, callee, args):
    ctx = eng.ctx
    k = ctx.counters.get("os_entropy_request", 0)
    ctx.counters["os_entropy_request"] = k + 1
    return Struct("SmallRng", ["seed"], [Opaque("os entropy request #%d" % k)])


@model(r"^<rand::prelude::SmallRng as rand::SeedableRng>::seed_from_u64$|^<.*SmallRng as .*SeedableRng>::seed_from_u64$", "SmallRng::seed_from_u64(s): generator identified by its seed")
def m_seed_from_u64(eng, callee, args):
    return Struct("SmallRng", ["seed"], [args[0]])


@model(r"^core::num::<impl u64>::wrapping_add$", "u64::wrapping_add")
def m_wrapping_add(eng, callee, args):
    a, b = args
    if isinstance(a, int) and isinstance(b, int):
        return (a + b) % (1 << 64)
    za = z3.IntVal(a) if isinstance(a, int) else a
    zb = z3.IntVal(b) if isinstance(b, int) else b
    s = za + zb
    return z3.If(s >= (1 << 64), s - (1 << 64), s)


@model(r"^<GTarget as Clone>::clone$|^<D as Clone>::clone$|^<Q as Clone>::clone$", "user type Clone")
def m_user_clone(eng, callee, args):
    return clone_val(deref(args[0]))


# ------------------------------------------------------------------------------------------------
# environment: clock, channels, threads, progress bars
# ------------------------------------------------------------------------------------------------
@model(r"^Instant::now$|^std::time::Instant::now$", "Instant::now: arbitrary non-decreasing instants (fresh solver variable >= the previous reading)")
def m_instant_now(eng, callee, args):
    ctx = eng.ctx
    t = ctx.fresh_real("instant")
    prev = getattr(ctx, "last_instant", None)
    if prev is not None:
        ctx.assume(t.z() >= prev.z())
    ctx.last_instant = t
    return t


@model(r"^Duration::from_secs$|^std::time::Duration::from_secs$", "Duration::from_secs(n) = n seconds")
def m_dur_secs(eng, callee, args):
    return Num(args[0])


@model(r"^Duration::from_millis$|^std::time::Duration::from_millis$", "Duration::from_millis")
def m_dur_ms(eng, callee, args):
    return Num(args[0]) / Num(1000)


@model(r"^<Instant as Add<Duration>>::add$", "Instant + Duration")
def m_instant_add(eng, callee, args):
    return Num.of(deref(args[0])) + Num.of(deref(args[1]))


@model(r"^<Instant as PartialOrd>::(ge|gt|le|lt)$", "Instant comparison")
def m_instant_cmp(eng, callee, args):
    a, b = Num.of(deref(args[0])), Num.of(deref(args[1]))
    return {"ge": a.ge, "gt": a.gt, "le": a.le, "lt": a.lt}[callee.rsplit("::", 1)[1]](b)


class Channel:
    def __init__(self):
        self.sent = []
        self.results = []


@model(r"^std::sync::mpsc::channel::<", "mpsc::channel(): (Sender, Receiver) over one queue")
def m_channel(eng, callee, args):
    ch = Channel()
    return Tuple([Struct("Sender", ["ch"], [ch]), Struct("Receiver", ["ch"], [ch])])


@model(r"^std::sync::mpsc::Sender::<.*>::send$", "Sender::send: Ok, or Err when the receiver is gone -- either, at every call (solver's choice)")
def m_send(eng, callee, args):
    tx = deref(args[0])
    ch = tx.fields[0] if isinstance(tx, Struct) else tx
    ok = eng.ctx.branch(eng.ctx.fresh_bool("send_ok"), "send")
    ch.sent.append(args[1])
    ch.results.append(ok)
    return Ok(Tuple([])) if ok else Err(Struct("SendError", ["0"], [args[1]]))


@model(r"^std::sync::mpsc::Receiver::<.*>::recv_timeout$|^std::sync::mpsc::Receiver::<.*>::try_recv$",
       "Receiver::recv_timeout: Ok(next queued message) if one has arrived by now (arrival times are the solver's choice, "
       "in send order), else Err(Timeout)")
def m_recv_timeout(eng, callee, args):
    rx = deref(args[0])
    ch = rx.fields[0]
    now = getattr(eng.ctx, "sleeps", 0)
    q = getattr(ch, "queue", None)
    if q is None:
        q = ch.queue = []
    if q and q[0][0] <= now:
        return Ok(q.pop(0)[1])
    return Err(Enum("RecvTimeoutError", "Timeout", []))


@model(r"^<ProgressStyle as Clone>::clone$|^<ProgressBar as Clone>::clone$|^<MultiProgress as Clone>::clone$", "indicatif handles: opaque clone")
def m_indicatif_clone(eng, callee, args):
    return Opaque("indicatif")


@model(r"^must_use::<", "must_use")
def m_must_use(eng, callee, args):
    return args[0]


@model(r"^std::thread::spawn::<", "thread::spawn: the closure is NOT executed here (the reporter thread is summarised); a handle is returned")
def m_thread_spawn(eng, callee, args):
    return Struct("JoinHandle", ["closure"], [args[0]])


@model(r"^JoinHandle::<.*>::join$|^std::thread::JoinHandle::<.*>::join$", "JoinHandle::join: Ok(())")
def m_join(eng, callee, args):
    return Ok(Tuple([]))


@model(r"^std::thread::scope::<", "thread::scope(f) = f(&scope); spawned closures run to completion before scope returns")
def m_thread_scope(eng, callee, args):
    return eng.call_closure(args[0], [Ref.to(Struct("Scope", [], []))])


@model(r"^std::thread::Scope::<.*>::spawn::<", "Scope::spawn: the closure runs (sequentially, in spawn order -- chains share nothing)")
def m_scope_spawn(eng, callee, args):
    res = eng.call_closure(args[1], [])
    return Struct("ScopedJoinHandle", ["result"], [res])


@model(r"^ScopedJoinHandle::<.*>::join$|^std::thread::ScopedJoinHandle::<.*>::join$", "ScopedJoinHandle::join: Ok(result)")
def m_scoped_join(eng, callee, args):
    return Ok(deref(args[0]).fields[0])


@model(r"^ProgressBar::|^ProgressStyle::|^MultiProgress::|^indicatif::", "indicatif: opaque no-ops (terminal output is not the subject)")
def m_indicatif(eng, callee, args):
    if callee.endswith("::template"):
        return Ok(Opaque("ProgressStyle"))
    return Opaque("indicatif")


@model(r" as QuantileExt<.*>>::(max|min|max_skipnan|min_skipnan)$", "ndarray-stats max/min: Ok(reference to an extreme element) (R-mode)")
def m_quantile_max(eng, callee, args):
    from models_nd import nd
    a = nd(args[0]).a
    if a.size == 0:
        return Err(Opaque("EmptyInput"))
    best = a.reshape(-1)[0]
    for x in a.reshape(-1)[1:]:
        best = ite(Num.of(x).gt(Num.of(best)) if "max" in callee else Num.of(x).lt(Num.of(best)), x, best)
    return Ok(Ref.to(best)) if not callee.endswith("skipnan") else Ref.to(best)


@model(r"^<f32 as PartialOrd>::partial_cmp$|^<f64 as PartialOrd>::partial_cmp$|^<T as PartialOrd>::partial_cmp$", "float partial_cmp: None iff an operand is NaN")
def m_partial_cmp(eng, callee, args):
    a, b = Num.of(deref(args[0])), Num.of(deref(args[1]))
    nan = mirsym_nan_or(a.nan, b.nan)
    ctx = eng.ctx
    if nan is not None and ctx.branch(nan, "partial_cmp NaN"):
        return NONE()
    if ctx.branch(Num(a.v).lt(Num(b.v)), "partial_cmp <"):
        return Some(Enum("Ordering", "Less", []))
    if ctx.branch(Num(a.v).eq(Num(b.v)), "partial_cmp =="):
        return Some(Enum("Ordering", "Equal", []))
    return Some(Enum("Ordering", "Greater", []))


@model(r"^(f32|f64)::total_cmp$|^std::(f32|f64)::<impl (f32|f64)>::total_cmp$|^core::(f32|f64)::<impl (f32|f64)>::total_cmp$",
       "total_cmp: IEEE totalOrder restricted to the N-mode domain (NaN above every number; -0/+0 not distinguished)")
def m_total_cmp(eng, callee, args):
    a, b = Num.of(deref(args[0])), Num.of(deref(args[1]))
    ctx = eng.ctx
    an = ctx.branch(a.is_nan(), "a NaN") if a.nan is not None else False
    bn = ctx.branch(b.is_nan(), "b NaN") if b.nan is not None else False
    if an and bn:
        return Enum("Ordering", "Equal", [])
    if an:
        return Enum("Ordering", "Greater", [])
    if bn:
        return Enum("Ordering", "Less", [])
    if ctx.branch(Num(a.v).lt(Num(b.v)), "total_cmp <"):
        return Enum("Ordering", "Less", [])
    if ctx.branch(Num(a.v).eq(Num(b.v)), "total_cmp =="):
        return Enum("Ordering", "Equal", [])
    return Enum("Ordering", "Greater", [])


def mirsym_nan_or(a, b):
    import mirsym
    return mirsym.nan_or(a, b)


# --- further burn API (not used by the pinned tree; present so that changed code stays decidable) -------------
@model(r" as (burn::tensor::)?ElementConversion>::elem::<", "ElementConversion::elem: the same value in another element type")
def m_elem(eng, callee, args):
    v = deref(args[0])
    if isinstance(v, (bool, z3.BoolRef)):
        return v
    if re.search(r"elem::<bool>", callee):
        return Num.of(v).ne(0)
    return Num.of(v) if not isinstance(v, int) else (Num(v) if re.search(r"elem::<f(32|64)>", callee) else v)


@model(NUMERIC + r"(abs)$", "element-wise abs")
def m_t_abs(eng, callee, args):
    return Ten(elementwise(ten(args[0]).a, lambda x: ite(x.lt(0), -x, x)))


@model(NUMERIC + r"(sqrt)$", "element-wise sqrt (uninterpreted)")
def m_t_sqrt(eng, callee, args):
    return Ten(elementwise(ten(args[0]).a, lambda x: num_fn("sqrt", x)))


@model(NUMERIC + r"(powf|powi)$", "element-wise power by a tensor (uninterpreted)")
def m_t_powf(eng, callee, args):
    a, b = ten(args[0]).a, ten(args[1]).a
    out = np.empty(a.size, dtype=object)
    for i, (x, y) in enumerate(zip(a.reshape(-1), np.broadcast_to(b, a.shape).reshape(-1))):
        out[i] = num_fn("powf", x, y)
    return Ten(out.reshape(a.shape))


@model(NUMERIC + r"mean$", "mean of all elements -> shape [1]")
def m_t_mean(eng, callee, args):
    a = ten(args[0]).a
    acc = Num(0)
    for x in a.reshape(-1):
        acc = acc + x
    return Ten(obj_array([acc / Num(a.size)], (1,)))


@model(NUMERIC + r"mean_dim$", "mean_dim(d): keeps the dimension with size 1")
def m_t_mean_dim(eng, callee, args):
    a = ten(args[0]).a
    s = a.sum(axis=args[1], keepdims=True)
    return Ten(elementwise(s, lambda x: x / Num(a.shape[args[1]])))


@model(NUMERIC + r"clamp(_min|_max)?::<|" + NUMERIC + r"clamp(_min|_max)?$", "clamp (R-mode)")
def m_t_clamp(eng, callee, args):
    a = ten(args[0]).a
    if "clamp_min" in callee:
        lo, hi = scalar(args[1]), None
    elif "clamp_max" in callee:
        lo, hi = None, scalar(args[1])
    else:
        lo, hi = scalar(args[1]), scalar(args[2])

    def f(x):
        if lo is not None:
            x = ite(x.lt(lo), lo, x)
        if hi is not None:
            x = ite(x.gt(hi), hi, x)
        return x
    return Ten(elementwise(a, f))


@model(BASE + r"(transpose|t)$", "transpose of the last two dimensions")
def m_t_transpose(eng, callee, args):
    a = ten(args[0]).a
    return Ten(np.swapaxes(a, -1, -2))


@model(BASE + r"swap_dims$", "swap_dims")
def m_t_swap(eng, callee, args):
    return Ten(np.swapaxes(ten(args[0]).a, args[1], args[2]))


@model(BASE + r"cat$|" + BASE + r"cat::<", "Tensor::cat(tensors, dim)")
def m_t_cat(eng, callee, args):
    v = deref(args[0])
    ts = [ten(x).a for x in (v.items if isinstance(v, RVec) else v)]
    try:
        return Ten(np.concatenate(ts, axis=args[1]))
    except ValueError:
        raise PanicPath("cat: shapes differ off-axis")


@model(NUMERIC + r"full::<", "Tensor::full(shape, value)")
def m_t_full(eng, callee, args):
    sh = shape_arg(args[0])
    v = scalar(args[1])
    n = int(np.prod(sh)) if sh else 1
    return Ten(obj_array([v for _ in range(n)], sh))


@model(NUMERIC + r"not_equal$", "element-wise != -> Bool tensor")
def m_t_ne(eng, callee, args):
    a, b = ten(args[0]).a, ten(args[1]).a
    out = np.empty(a.size, dtype=object)
    for i, (x, y) in enumerate(zip(a.reshape(-1), np.broadcast_to(b, a.shape).reshape(-1))):
        out[i] = x.ne(y)
    return bool_ten(out.reshape(a.shape))


@model(NUMERIC + r"(float|int)$", "Bool/Int tensor to float tensor (true = 1)")
def m_t_float(eng, callee, args):
    t = ten(args[0])
    if t.dtype == "bool":
        return Ten(elementwise(t.a, lambda b: ite(b, Num(1), Num(0))))
    return Ten(t.a.copy())


@model(NUMERIC + r"(is_inf|is_finite)$", "is_inf: false / is_finite: not NaN (no infinities in N-mode)")
def m_t_is_inf(eng, callee, args):
    a = ten(args[0]).a
    if callee.endswith("is_inf"):
        return bool_ten(elementwise(a, lambda x: False))
    return bool_ten(elementwise(a, lambda x: b_not(Num.of(x).is_nan())))


@model(NUMERIC + r"mask_fill::<|" + NUMERIC + r"mask_fill$", "mask_fill(mask, value)")
def m_t_mask_fill(eng, callee, args):
    t, mask = ten(args[0]).a, ten(args[1]).a
    v = scalar(args[2])
    out = np.empty(t.size, dtype=object)
    for i, (x, m) in enumerate(zip(t.reshape(-1), np.broadcast_to(mask, t.shape).reshape(-1))):
        out[i] = ite(m, v, x)
    return Ten(out.reshape(t.shape))
