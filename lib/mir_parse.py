"""Parser for rustc's `-Zunpretty=mir` text (nightly 1.97 format) into a small AST.

Only the constructs that occur in mini-mcmc's dump are handled; anything else raises ParseError,
which the engine reports as *inconclusive* (never as a pass).
"""
import re


class ParseError(Exception):
    pass


# ------------------------------------------------------------------------------------------------
# AST
# ------------------------------------------------------------------------------------------------
class Place:
    __slots__ = ("local", "proj")

    def __init__(self, local, proj):
        self.local = local  # int
        self.proj = proj  # list of ('deref',) | ('field', idx, ty) | ('index', local) | ('constindex', i, n)
        #                  | ('downcast', variant)

    def __repr__(self):
        return "Place(_%d%s)" % (self.local, "".join("/" + ":".join(str(x) for x in p) for p in self.proj))


class Operand:
    __slots__ = ("kind", "place", "const", "ty")

    def __init__(self, kind, place=None, const=None, ty=None):
        self.kind = kind  # 'copy' | 'move' | 'const'
        self.place = place
        self.const = const  # raw constant text
        self.ty = ty

    def __repr__(self):
        return "%s(%r)" % (self.kind, self.place if self.kind != "const" else self.const)


class Rvalue:
    __slots__ = ("kind", "args")

    def __init__(self, kind, *args):
        self.kind = kind
        self.args = args

    def __repr__(self):
        return "Rvalue(%s, %r)" % (self.kind, self.args)


class Stmt:
    __slots__ = ("kind", "place", "rvalue", "text")

    def __init__(self, kind, place=None, rvalue=None, text=""):
        self.kind = kind  # 'assign' | 'nop'
        self.place = place
        self.rvalue = rvalue
        self.text = text


class Term:
    __slots__ = ("kind", "a", "text")

    def __init__(self, kind, text="", **a):
        self.kind = kind
        self.a = a
        self.text = text


class Block:
    __slots__ = ("idx", "stmts", "term", "cleanup")

    def __init__(self, idx, cleanup):
        self.idx = idx
        self.stmts = []
        self.term = None
        self.cleanup = cleanup


class Function:
    def __init__(self, name):
        self.name = name
        self.nargs = 0
        self.arg_types = []
        self.ret_type = ""
        self.local_types = {}
        self.debug = {}  # source name -> place text
        self.blocks = {}
        self.text = ""


# ------------------------------------------------------------------------------------------------
# lexical helpers
# ------------------------------------------------------------------------------------------------
OPEN = "([{<"
CLOSE = ")]}>"
PAIR = {")": "(", "]": "[", "}": "{", ">": "<"}


def split_top(s, sep=","):
    """Split at top-level separators (outside (), [], {}, <> and string literals)."""
    out = []
    depth = 0
    cur = []
    i = 0
    n = len(s)
    instr = False
    while i < n:
        c = s[i]
        if instr:
            cur.append(c)
            if c == "\\":
                i += 1
                if i < n:
                    cur.append(s[i])
            elif c == '"':
                instr = False
            i += 1
            continue
        if c == '"':
            instr = True
            cur.append(c)
        elif c in "([{":
            depth += 1
            cur.append(c)
        elif c in ")]}":
            depth -= 1
            cur.append(c)
        elif c == "<":
            # generic bracket unless it is a comparison operator (not present in MIR rvalues)
            depth += 1
            cur.append(c)
        elif c == ">":
            if i > 0 and s[i - 1] in "-=":
                cur.append(c)  # '->' or '=>'
            else:
                depth -= 1
                cur.append(c)
        elif c == sep and depth == 0:
            out.append("".join(cur).strip())
            cur = []
        else:
            cur.append(c)
        i += 1
    last = "".join(cur).strip()
    if last or out:
        out.append(last)
    return [x for x in out if x != ""]


def match_paren(s, i):
    """s[i] is an opening bracket; return index of the matching close."""
    depth = 0
    n = len(s)
    instr = False
    j = i
    while j < n:
        c = s[j]
        if instr:
            if c == "\\":
                j += 1
            elif c == '"':
                instr = False
        elif c == '"':
            instr = True
        elif c in "([{":
            depth += 1
        elif c in ")]}":
            depth -= 1
            if depth == 0:
                return j
        j += 1
    raise ParseError("unbalanced: " + s[i:i + 60])


# ------------------------------------------------------------------------------------------------
# places / operands / rvalues
# ------------------------------------------------------------------------------------------------
def parse_place(s):
    s = s.strip()
    m = re.fullmatch(r"_(\d+)", s)
    if m:
        return Place(int(m.group(1)), [])
    # index: PLACE[_N] or PLACE[i of n]
    if s.endswith("]"):
        # find matching '['
        depth = 0
        for j in range(len(s) - 1, -1, -1):
            if s[j] == "]":
                depth += 1
            elif s[j] == "[":
                depth -= 1
                if depth == 0:
                    break
        base = s[:j]
        inner = s[j + 1:-1].strip()
        if base and not base.endswith(":"):
            b = parse_place(base)
            mi = re.fullmatch(r"_(\d+)", inner)
            if mi:
                return Place(b.local, b.proj + [("index", int(mi.group(1)))])
            mc = re.fullmatch(r"(\d+) of (\d+)", inner)
            if mc:
                return Place(b.local, b.proj + [("constindex", int(mc.group(1)), int(mc.group(2)))])
            raise ParseError("index projection: " + s)
    if s.startswith("(") and s.endswith(")") and match_paren(s, 0) == len(s) - 1:
        inner = s[1:-1].strip()
        if inner.startswith("*"):
            b = parse_place(inner[1:])
            return Place(b.local, b.proj + [("deref",)])
        # downcast: PLACE as Variant
        m = re.fullmatch(r"(.+) as ([A-Za-z_][A-Za-z0-9_#]*)", inner)
        if m and not re.search(r"\.\d+: ", m.group(2)):
            try:
                b = parse_place(m.group(1))
                return Place(b.local, b.proj + [("downcast", m.group(2))])
            except ParseError:
                pass
        # field: PLACE.N: TYPE   (the place itself may be parenthesised)
        # find the '.N: ' that follows the base place at top level
        if inner.startswith("("):
            k = match_paren(inner, 0)
            rest = inner[k + 1:]
            base = inner[:k + 1]
        else:
            m2 = re.match(r"(_\d+)", inner)
            if not m2:
                raise ParseError("place: " + s)
            base = m2.group(1)
            rest = inner[len(base):]
        m3 = re.match(r"\.(\d+): (.*)$", rest, re.S)
        if m3:
            b = parse_place(base)
            return Place(b.local, b.proj + [("field", int(m3.group(1)), m3.group(2).strip())])
        if rest.strip() == "":
            return parse_place(base)
    raise ParseError("place: " + s)


def parse_operand(s):
    s = s.strip()
    if s.startswith("no_retag "):
        s = s[len("no_retag "):]
    if s.startswith("copy "):
        return Operand("copy", place=parse_place(s[5:]))
    if s.startswith("move "):
        return Operand("move", place=parse_place(s[5:]))
    if s.startswith("const "):
        return Operand("const", const=s[6:].strip())
    if re.match(r"[A-Za-z_<][^ ]*::[A-Za-z_<{]", s) and "(" not in s.replace("<impl ", "").split("::")[-1]:
        # a function item used as a value (e.g. `mapv(f32::sqrt)`)
        return Operand("const", const="fnitem " + s)
    raise ParseError("operand: " + s)


BINOPS = {
    "Add", "Sub", "Mul", "Div", "Rem", "BitAnd", "BitOr", "BitXor", "Shl", "Shr", "Eq", "Ne", "Lt", "Le", "Gt", "Ge",
    "AddWithOverflow", "SubWithOverflow", "MulWithOverflow", "AddUnchecked", "SubUnchecked", "MulUnchecked", "Offset",
    "Cmp",
}
UNOPS = {"Not", "Neg", "PtrMetadata"}


def parse_rvalue(s):
    s = s.strip()
    if s.startswith("no_retag "):
        s = s[len("no_retag "):]
    # references
    if s.startswith("&raw const ") or s.startswith("&raw mut "):
        return Rvalue("ref", parse_place(s.split(" ", 2)[2]), "raw")
    if s.startswith("&mut "):
        return Rvalue("ref", parse_place(s[5:]), "mut")
    if s.startswith("&"):
        return Rvalue("ref", parse_place(s[1:]), "shared")
    m = re.match(r"([A-Za-z]+)\(", s)
    if m and s.endswith(")") and match_paren(s, len(m.group(1))) == len(s) - 1:
        name = m.group(1)
        inner = s[len(name) + 1:-1]
        if name in BINOPS:
            a, b = split_top(inner)
            return Rvalue("binop", name, parse_operand(a), parse_operand(b))
        if name in UNOPS:
            return Rvalue("unop", name, parse_operand(inner))
        if name == "discriminant":
            return Rvalue("discriminant", parse_place(inner))
        if name == "Len":
            return Rvalue("len", parse_place(inner))
        if name == "CopyForDeref":
            return Rvalue("use", Operand("copy", place=parse_place(inner)))
    # cast: OPERAND as TYPE (Kind)
    mc = re.match(r"((?:copy|move|const) .*) as (.*) \(([A-Za-z]+(?:\([^)]*\))?)\)$", s, re.S)
    if mc:
        return Rvalue("cast", parse_operand(mc.group(1)), mc.group(2).strip(), mc.group(3))
    if s.startswith("copy ") or s.startswith("move ") or s.startswith("const "):
        return Rvalue("use", parse_operand(s))
    # aggregates
    if s.startswith("(") and match_paren(s, 0) == len(s) - 1:
        inner = s[1:-1]
        parts = split_top(inner)
        return Rvalue("tuple", [parse_operand(p) for p in parts])
    if s.startswith("[") and match_paren(s, 0) == len(s) - 1:
        inner = s[1:-1]
        if ";" in inner and len(split_top(inner, ";")) == 2:
            a, n = split_top(inner, ";")
            return Rvalue("repeat", parse_operand(a), n.strip())
        parts = split_top(inner)
        return Rvalue("array", [parse_operand(p) for p in parts])
    # closure / struct literal:  NAME { f: op, ... }
    mb = re.match(r"(.*?) \{ (.*) \}$", s, re.S)
    if mb and ("{closure@" in mb.group(1) or re.match(r"[A-Za-z_<]", mb.group(1))):
        head = mb.group(1)
        if head.startswith("{closure@") or head.startswith("{async"):
            fields = []
            for part in split_top(mb.group(2)):
                k, v = part.split(": ", 1)
                fields.append((k.strip(), parse_operand(v)))
            return Rvalue("closure", head, fields)
        fields = []
        for part in split_top(mb.group(2)):
            k, v = part.split(": ", 1)
            fields.append((k.strip(), parse_operand(v)))
        return Rvalue("struct", head, fields)
    if s.startswith("{closure@") and s.endswith("}"):
        return Rvalue("closure", s, [])
    # enum variant / tuple struct:  Path::<T>::Variant(op, ..)  or unit  Path::Variant
    if s.endswith(")") and re.match(r"[A-Za-z_<]", s):
        for i, ch in enumerate(s):
            if ch == "(" and i > 0 and (s[i - 1].isalnum() or s[i - 1] == "_"):
                try:
                    if match_paren(s, i) == len(s) - 1:
                        inner = s[i + 1:-1].strip()
                        ops = [parse_operand(p) for p in split_top(inner)] if inner else []
                        return Rvalue("ctor", s[:i].strip(), ops)
                except ParseError:
                    continue
    if re.match(r"[A-Za-z_<][A-Za-z0-9_:<>, '\[\];&()]*$", s):
        return Rvalue("ctor", s, [])
    raise ParseError("rvalue: " + s)


# ------------------------------------------------------------------------------------------------
# terminators
# ------------------------------------------------------------------------------------------------
def parse_targets(s):
    """'[return: bb1, unwind: bb25]' -> dict"""
    s = s.strip()
    d = {}
    if s.startswith("["):
        for part in split_top(s[1:-1]):
            if ":" in part:
                k, v = part.split(":", 1)
                d[k.strip()] = v.strip()
            else:
                d[part.split(" ", 1)[0]] = part
    else:
        d["_"] = s
    return d


def bbnum(s):
    m = re.match(r"bb(\d+)", s.strip())
    return int(m.group(1)) if m else None


def parse_call(s):
    """CALLEE(args) with balanced scanning from the right."""
    s = s.strip()
    if not s.endswith(")"):
        raise ParseError("call: " + s)
    depth = 0
    instr = False
    j = len(s) - 1
    # scan backwards for the '(' matching the final ')'; strings in args are rare (const "..") and
    # contain no unbalanced brackets in this dump except escaped bytes, handled by forward matching
    # forward matching is simpler: find candidate '(' positions
    pos = None
    for i, c in enumerate(s):
        if c == "(":
            try:
                if match_paren(s, i) == len(s) - 1:
                    # callee text before must be balanced in <>
                    head = s[:i]
                    if head.count("(") == head.count(")"):
                        pos = i
                        break
            except ParseError:
                continue
    if pos is None:
        raise ParseError("call: " + s)
    callee = s[:pos].strip()
    args = [parse_operand(a) for a in split_top(s[pos + 1:-1])]
    return callee, args


def parse_terminator(text):
    t = text.strip().rstrip(";").strip()
    if t == "return":
        return Term("return", text)
    if t == "unreachable":
        return Term("unreachable", text)
    if t == "resume" or t.startswith("unwind terminate") or t == "terminate(cleanup)" or t.startswith("terminate"):
        return Term("resume", text)
    m = re.match(r"goto -> (bb\d+)$", t)
    if m:
        return Term("goto", text, target=bbnum(m.group(1)))
    if t.startswith("switchInt("):
        k = match_paren(t, len("switchInt"))
        op = parse_operand(t[len("switchInt("):k])
        rest = t[k + 1:].strip()
        assert rest.startswith("->")
        tg = parse_targets(rest[2:].strip())
        cases = []
        other = None
        for kk, v in tg.items():
            if kk == "otherwise":
                other = bbnum(v)
            else:
                cases.append((kk, bbnum(v)))
        return Term("switch", text, op=op, cases=cases, otherwise=other)
    if t.startswith("drop("):
        k = match_paren(t, 4)
        rest = t[k + 1:].strip()
        tg = parse_targets(rest[2:].strip()) if rest.startswith("->") else {}
        return Term("drop", text, place=parse_place(t[5:k]), target=bbnum(tg.get("return", "")))
    if t.startswith("assert("):
        k = match_paren(t, 6)
        inner = t[7:k]
        parts = split_top(inner)
        cond = parts[0].strip()
        expected = True
        if cond.startswith("!"):
            expected = False
            cond = cond[1:]
        msg = parts[1] if len(parts) > 1 else ""
        rest = t[k + 1:].strip()
        tg = parse_targets(rest[2:].strip())
        return Term("assert", text, cond=parse_operand(cond), expected=expected, msg=msg,
                    target=bbnum(tg.get("success", "")))
    # call with destination
    m = re.match(r"((?:_\d+|\(.*?\))) = (.*) -> (\[.*\]|unwind .*)$", t, re.S)
    if m and "(" in m.group(2):
        try:
            dest = parse_place(m.group(1))
            callee, args = parse_call(m.group(2))
            tg = parse_targets(m.group(3))
            return Term("call", text, dest=dest, callee=callee, args=args, target=bbnum(tg.get("return", "")))
        except ParseError:
            pass
    # diverging call
    m = re.match(r"(.*\)) -> (unwind .*|\[.*\]|bb\d+)$", t, re.S)
    if m:
        callee, args = parse_call(m.group(1))
        tg = parse_targets(m.group(2))
        return Term("call", text, dest=None, callee=callee, args=args, target=bbnum(tg.get("return", "") or ""))
    raise ParseError("terminator: " + t)


# ------------------------------------------------------------------------------------------------
# whole dump
# ------------------------------------------------------------------------------------------------
HEADER_RE = re.compile(r"^fn (.+?)\((_1: |\) -> )", re.S)


def parse_function(text):
    first_nl = text.index("\n")
    header = text[:first_nl]
    # name = up to the '(' that starts the argument list: '(_1: ' or '()'
    m = re.match(r"fn (.+?)\((?=_1: |\) )", header)
    if not m:
        raise ParseError("header: " + header[:120])
    name = m.group(1)
    f = Function(name)
    f.text = text
    argstart = len("fn ") + len(name)
    k = match_paren(header, argstart)
    args = split_top(header[argstart + 1:k])
    f.nargs = len(args)
    for a in args:
        mm = re.match(r"(?:mut )?_(\d+): (.*)$", a, re.S)
        f.arg_types.append(mm.group(2) if mm else a)
        if mm:
            f.local_types[int(mm.group(1))] = mm.group(2)
    rest = header[k + 1:].strip()
    if rest.startswith("->"):
        f.ret_type = rest[2:].rstrip("{").strip()
    lines = text[first_nl + 1:].split("\n")
    cur = None
    buf = ""
    for ln in lines:
        st = ln.strip()
        if cur is None:
            m = re.match(r"let (?:mut )?_(\d+): (.*);$", st)
            if m:
                f.local_types[int(m.group(1))] = m.group(2)
                continue
            m = re.match(r"debug (\S+) => (.*);$", st)
            if m:
                f.debug.setdefault(m.group(1), []).append(m.group(2))
                continue
        m = re.match(r"bb(\d+)( \(cleanup\))?: \{$", st)
        if m:
            cur = Block(int(m.group(1)), bool(m.group(2)))
            f.blocks[cur.idx] = cur
            buf = ""
            continue
        if cur is not None:
            if st == "}":
                if buf.strip():
                    raise ParseError("dangling statement in %s bb%d: %s" % (name, cur.idx, buf[:100]))
                cur = None
                continue
            if not st:
                continue
            buf = (buf + " " + st).strip() if buf else st
            if not buf.endswith(";"):
                continue  # statement continues on the next line
            stmt_text = buf
            buf = ""
            if cur.cleanup:
                cur.term = Term("resume", stmt_text)
                continue
            body = stmt_text[:-1].strip()
            if body.startswith("StorageLive") or body.startswith("StorageDead") or body.startswith("FakeRead") \
                    or body.startswith("PlaceMention") or body.startswith("AscribeUserType") or body == "nop" \
                    or body.startswith("Retag") or body.startswith("Coverage") or body.startswith("ConstEvalCounter") \
                    or body.startswith("BackwardIncompatibleDropHint") or body.startswith("Deinit"):
                continue
            is_term = (body in ("return", "unreachable", "resume") or body.startswith("goto ") or
                       body.startswith("switchInt(") or body.startswith("drop(") or body.startswith("assert(") or
                       re.search(r"-> (\[|unwind |bb\d+$)", body) is not None or body.startswith("terminate"))
            if is_term:
                cur.term = parse_terminator(stmt_text)
            else:
                m = re.match(r"(.+?) = (.*)$", body, re.S)
                if not m:
                    raise ParseError("statement in %s: %s" % (name, body[:120]))
                # the place ends at the first top-level ' = '
                lhs, rhs = split_assign(body)
                cur.stmts.append(Stmt("assign", parse_place(lhs), parse_rvalue(rhs), stmt_text))
    return f


def split_assign(body):
    depth = 0
    i = 0
    n = len(body)
    while i < n:
        c = body[i]
        if c in "([{":
            depth += 1
        elif c in ")]}":
            depth -= 1
        elif c == "=" and depth == 0 and body[i - 1] == " " and body[i + 1] == " ":
            return body[:i].strip(), body[i + 1:].strip()
        i += 1
    raise ParseError("assign: " + body[:100])


def parse_dump(text, wanted=None):
    """Return {name: Function}.  `wanted`: optional predicate on the function name (lazy parsing)."""
    chunks = re.split(r"\n(?=fn )", "\n" + text)
    out = {}
    raw = {}
    for ch in chunks:
        ch = ch.strip("\n")
        if not ch.startswith("fn "):
            continue
        # cut trailing consts/statics after the closing brace of the function
        end = ch.find("\n}\n")
        body = ch if end < 0 else ch[:end + 2]
        m = re.match(r"fn (.+?)\((?=_1: |\) )", body)
        if not m:
            continue
        raw[m.group(1)] = body
    return raw


class Dump:
    """Lazy, cached access to parsed functions of one MIR dump."""

    def __init__(self, text):
        self.raw = parse_dump(text)
        self.cache = {}
        self.consts = {}
        for m in re.finditer(r"^const ([A-Za-z_0-9:{}#]+): ([^=]+) = const (.*);$", text, re.M):
            self.consts[m.group(1)] = (m.group(2).strip(), m.group(3).strip())
        # promoted constants are small bodies: `const F::promoted[k]: T = { ... }`
        self.promoted = {}
        for m in re.finditer(r"^const ([^\n]+?::promoted\[\d+\]): ([^\n]*?) = \{\n(.*?)\n\}$", text, re.M | re.S):
            self.promoted[m.group(1)] = "fn %s() -> %s {\n%s\n}" % (m.group(1), m.group(2), m.group(3))

    def names(self):
        return list(self.raw.keys())

    def get(self, name):
        if name not in self.cache:
            if name not in self.raw and name in getattr(self, "promoted", {}):
                self.cache[name] = parse_function(self.promoted[name])
                return self.cache[name]
            if name not in self.raw:
                raise KeyError(name)
            self.cache[name] = parse_function(self.raw[name])
        return self.cache[name]
