"""MIR dump of /repo's current working tree (content-addressed cache, regenerated when sources change)."""
import os
import subprocess
import time

import mir_parse
import mirsym
from common import CACHE, REPO, env_offline, log, repo_src_hash

MIR_DIR = os.path.join(CACHE, "mir")
MIR_TARGET = os.path.join(CACHE, "mir-target")


def dump_path(features=None):
    return os.path.join(MIR_DIR, repo_src_hash() + (".f-" + features.replace(",", "-") if features else "") + ".mir")


def ensure_dump(features=None):
    os.makedirs(MIR_DIR, exist_ok=True)
    p = dump_path(features)
    if os.path.exists(p) and os.path.getsize(p) > 100000:
        return p, 0.0
    t0 = time.time()
    h = repo_src_hash()[:16]
    cmd = ["cargo", "+nightly", "rustc", "--offline", "--lib", "--target-dir", MIR_TARGET, "--", "-Zunpretty=mir",
           "-C", "debug-assertions=off", "-C", "overflow-checks=on", "--cfg", "verif_mir_" + h]
    if features:
        cmd[cmd.index("--lib") + 1:cmd.index("--lib") + 1] = ["--features", features]
    r = subprocess.run(cmd, cwd=REPO, env=env_offline(), stdout=subprocess.PIPE, stderr=subprocess.PIPE, text=True)
    if r.returncode != 0 or len(r.stdout) < 100000:
        raise RuntimeError("MIR dump failed:\n" + r.stderr[-3000:])
    tmp = p + ".tmp%d" % os.getpid()
    with open(tmp, "w") as fh:
        fh.write(r.stdout)
    os.replace(tmp, p)
    # keep the cache small
    for f in sorted(os.listdir(MIR_DIR)):
        fp = os.path.join(MIR_DIR, f)
        if fp != p and f.endswith(".mir") and time.time() - os.path.getmtime(fp) > 6 * 3600:
            try:
                os.remove(fp)
            except OSError:
                pass
    return p, time.time() - t0


_cache = {}


def load_engine(features=None):
    """Fresh Engine over the current dump (parsed functions are shared between engines).
    `features`: cargo features of /repo to enable for the dump (the io modules are feature-gated)."""
    p, secs = ensure_dump(features)
    if p not in _cache:
        with open(p) as fh:
            _cache[p] = mir_parse.Dump(fh.read())
    src_index = {"root": REPO, "structs": mirsym.struct_orders(REPO)}
    eng = mirsym.Engine(_cache[p], src_index)
    import models_core
    eng.add_models(models_core.MODELS)
    try:
        import models_nd
        eng.add_models(models_nd.MODELS)
    except ImportError:
        pass
    try:
        import models_burn
        eng.add_models(models_burn.MODELS)
    except ImportError:
        pass
    eng.dump_path = p
    eng.dump_secs = secs
    return eng
