"""Model table, part 2: ndarray.  Arrays are numpy object arrays of Num; ndarray views are numpy
views (shared storage), so writes through `axis_iter_mut`/`index_mut` views reach the base array.
"""
import re

import numpy as np
import z3

from mirsym import (NONE, Enum, Err, Num, Ok, Opaque, PanicPath, Ref, RVec, Some, Struct, Tuple, Unmodelled, b_or,
                    clone_val, ite, num_fn)
from models_core import PyIter, as_iter, deref, model as core_model
import models_core

MODELS = []


def model(pat, doc=""):
    def deco(fn):
        def wrapped(eng, callee, args, _fn=fn, _pat=pat, _doc=doc):
            models_core.USED.add("ndarray: " + (_doc or _pat))
            return _fn(eng, callee, args)
        MODELS.append((pat, wrapped))
        return fn
    return deco


class ND:
    """ndarray ArrayBase (owned or view)."""
    __slots__ = ("a",)

    def __init__(self, a):
        if not isinstance(a, np.ndarray):
            a = np.array(a, dtype=object)
        self.a = a

    def rust_clone(self):
        return ND(self.a.copy())

    def __repr__(self):
        return "ND(shape=%s)" % (self.a.shape,)


def nd(v):
    v = deref(v)
    if isinstance(v, ND):
        return v
    raise Unmodelled("expected ndarray, got %r" % type(v).__name__)


def obj_array(items, shape):
    a = np.empty(len(items), dtype=object)
    for i, x in enumerate(items):
        a[i] = x
    return a.reshape(shape)


def elementwise(a, f):
    out = np.empty(a.size, dtype=object)
    for i, x in enumerate(a.reshape(-1)):
        out[i] = f(x)
    return out.reshape(a.shape)


def axis_of(v):
    v = deref(v)
    if isinstance(v, Struct) and v.name == "Axis":
        return v.fields[0]
    raise Unmodelled("expected Axis")


def shape_of(v):
    v = deref(v)
    if isinstance(v, int):
        return (v,)
    if isinstance(v, Tuple):
        return tuple(v.fields)
    if isinstance(v, RVec):
        return tuple(v.items)
    if isinstance(v, list):
        return tuple(v)
    raise Unmodelled("shape %r" % (v,))


def total(a):
    acc = None
    for x in a.reshape(-1):
        acc = x if acc is None else acc + x
    return acc if acc is not None else Num(0)


ARR = r"ArrayBase<[^>]*(?:<[^>]*>[^>]*)*>"


# --- constructors -------------------------------------------------------------------------------
@model(r"impl_constructors::<impl ArrayBase<.*>>::from_vec$|^<ArrayBase<.*> as From<Vec<.*>>>::from$", "Array1::from_vec keeps order")
def m_from_vec(eng, callee, args):
    v = deref(args[0])
    return ND(obj_array(list(v.items), (len(v.items),)))


@model(r"^arr1::<", "arr1(&[..])")
def m_arr1(eng, callee, args):
    v = deref(args[0])
    items = v.items if isinstance(v, RVec) else v
    return ND(obj_array([clone_val(x) for x in items], (len(items),)))


@model(r"^arr2::<", "arr2(&[[..]])")
def m_arr2(eng, callee, args):
    v = deref(args[0])
    rows = v.items if isinstance(v, RVec) else v
    flat = [clone_val(x) for r in rows for x in (r.items if isinstance(r, RVec) else r)]
    return ND(obj_array(flat, (len(rows), len(rows[0]) if rows else 0)))


@model(r"impl_constructors::<impl ArrayBase<.*>>::zeros::<", "zeros(shape)")
def m_zeros(eng, callee, args):
    sh = shape_of(args[0])
    n = int(np.prod(sh)) if sh else 1
    return ND(obj_array([Num(0) for _ in range(n)], sh))


@model(r"impl_constructors::<impl ArrayBase<.*>>::from_shape_vec::<", "Array::from_shape_vec: Ok iff the vector has exactly product(shape) elements (row-major)")
def m_from_shape_vec(eng, callee, args):
    sh = shape_of(args[0])
    v = deref(args[1])
    items = v.items if isinstance(v, RVec) else v
    n = int(np.prod(sh)) if sh else 1
    if len(items) != n:
        return Err(Opaque("ShapeError"))
    return Ok(ND(obj_array(list(items), sh)))


@model(r"impl_views::constructors::<impl ArrayBase<ViewRepr<.*>>::from_shape::<", "ArrayView::from_shape: Ok iff the slice is long enough (row-major)")
def m_from_shape(eng, callee, args):
    sh = shape_of(args[0])
    v = deref(args[1])
    items = v.items if isinstance(v, RVec) else v
    n = int(np.prod(sh)) if sh else 1
    if len(items) < n:
        return Err(Opaque("ShapeError"))
    return Ok(ND(obj_array(list(items[:n]), sh)))


# --- structure ----------------------------------------------------------------------------------
@model(r"impl_methods::<impl ArrayBase<.*>>::(to_owned|view|view_mut|into_owned|reborrow)$|^<ArrayBase<.*> as Clone>::clone$", "to_owned/view/clone")
def m_copyish(eng, callee, args):
    a = nd(args[0])
    if callee.endswith("view") or callee.endswith("view_mut") or callee.endswith("reborrow"):
        return ND(a.a)
    return ND(a.a.copy())


@model(r"impl_methods::<impl ArrayBase<.*>>::(t|reversed_axes)$", "transpose view")
def m_t(eng, callee, args):
    return ND(nd(args[0]).a.T)


@model(r"impl_methods::<impl ArrayBase<.*>>::shape$", "shape()")
def m_shape(eng, callee, args):
    return Ref.to(list(nd(args[0]).a.shape))


@model(r"impl_methods::<impl ArrayBase<.*>>::dim$", "dim()")
def m_dim(eng, callee, args):
    sh = nd(args[0]).a.shape
    return sh[0] if len(sh) == 1 else Tuple(list(sh))


@model(r"impl_methods::<impl ArrayBase<.*>>::len$", "len() = number of elements")
def m_len(eng, callee, args):
    return int(nd(args[0]).a.size)


@model(r"impl_methods::<impl ArrayBase<.*>>::is_empty$", "is_empty() = some axis has length 0")
def m_is_empty(eng, callee, args):
    return int(nd(args[0]).a.size) == 0


@model(r"impl_methods::<impl ArrayBase<.*>>::len_of$", "len_of(axis)")
def m_len_of(eng, callee, args):
    return int(nd(args[0]).a.shape[axis_of(args[1])])


@model(r"impl_methods::<impl ArrayBase<.*>>::ndim$", "ndim()")
def m_ndim(eng, callee, args):
    return int(nd(args[0]).a.ndim)


@model(r"impl_2d::<impl ArrayBase<.*>>::nrows$", "nrows")
def m_nrows(eng, callee, args):
    return int(nd(args[0]).a.shape[0])


@model(r"impl_2d::<impl ArrayBase<.*>>::ncols$", "ncols")
def m_ncols(eng, callee, args):
    return int(nd(args[0]).a.shape[1])


@model(r"impl_2d::<impl ArrayBase<.*>>::column$", "column(j) view")
def m_column(eng, callee, args):
    return ND(nd(args[0]).a[:, args[1]])


@model(r"impl_2d::<impl ArrayBase<.*>>::row$|impl_2d::<impl ArrayBase<.*>>::row_mut$", "row(i) view")
def m_row(eng, callee, args):
    return ND(nd(args[0]).a[args[1], :])


@model(r"impl_methods::<impl ArrayBase<.*>>::index_axis$|impl_methods::<impl ArrayBase<.*>>::index_axis_mut$|::index_axis_move$", "index_axis view")
def m_index_axis(eng, callee, args):
    a = nd(args[0]).a
    ax = axis_of(args[1])
    i = args[2]
    if not (0 <= i < a.shape[ax]):
        raise PanicPath("ndarray: index out of bounds")
    idx = [slice(None)] * a.ndim
    idx[ax] = slice(i, i + 1)
    sub = a[tuple(idx)]
    return ND(sub.reshape(tuple(s for k, s in enumerate(a.shape) if k != ax)))


@model(r"impl_methods::<impl ArrayBase<.*>>::insert_axis$", "insert_axis")
def m_insert_axis(eng, callee, args):
    return ND(np.expand_dims(nd(args[0]).a, axis_of(args[1])))


@model(r"impl_methods::<impl ArrayBase<.*>>::broadcast::<", "broadcast: Some iff numpy-style broadcasting is possible")
def m_broadcast(eng, callee, args):
    a = nd(args[0]).a
    sh = shape_of(args[1])
    try:
        return Some(ND(np.broadcast_to(a, sh)))
    except ValueError:
        return NONE()


@model(r"impl_methods::<impl ArrayBase<.*>>::into_dimensionality::<", "into_dimensionality: Ok when ranks agree")
def m_into_dim(eng, callee, args):
    a = nd(args[0])
    m = re.search(r"into_dimensionality::<Dim<\[usize; (\d+)\]>>", callee)
    if m and int(m.group(1)) != a.a.ndim:
        return Err(Opaque("ShapeError"))
    return Ok(ND(a.a))


@model(r"impl_methods::<impl ArrayBase<.*>>::(into_shape_with_order|to_shape|into_shape)::<", "reshape (row-major)")
def m_reshape(eng, callee, args):
    a = nd(args[0]).a
    sh = shape_of(args[1])
    if int(np.prod(sh)) != a.size:
        return Err(Opaque("ShapeError"))
    return Ok(ND(a.reshape(sh)))


# slicing ----------------------------------------------------------------------------------------
@model(r" as ndarray::SliceNextDim>::next_(in|out)_dim::<", "s![] bookkeeping (type-level)")
def m_next_dim(eng, callee, args):
    return Opaque("PhantomData")


@model(r"^<SliceInfoElem as From<.*>>::from$", "SliceInfoElem::from(range | index)")
def m_slice_elem(eng, callee, args):
    v = args[0]
    if isinstance(v, int):
        return ("index", v)
    if isinstance(v, Struct):
        if v.name == "RangeFull":
            return ("slice", None, None)
        if v.name == "RangeTo":
            return ("slice", None, v.fields[0])
        if v.name == "RangeFrom":
            return ("slice", v.fields[0], None)
        if v.name == "Range":
            return ("slice", v.fields[0], v.fields[1])
    raise Unmodelled("SliceInfoElem from %r" % (v,))


@model(r"^SliceInfo::<.*>::new_unchecked$", "SliceInfo::new_unchecked")
def m_slice_info(eng, callee, args):
    v = deref(args[0])
    return list(v)


@model(r"impl_methods::<impl ArrayBase<.*>>::(slice|slice_mut|slice_move)::<", "slice(s![..]) with numpy semantics (negative = from the end)")
def m_slice(eng, callee, args):
    a = nd(args[0]).a
    info = deref(args[1])
    idx = []
    for k, e in enumerate(info):
        if e[0] == "index":
            i = e[1]
            n = a.shape[k]
            if i < 0:
                i += n
            if not (0 <= i < n):
                raise PanicPath("ndarray: index out of bounds")
            idx.append(i)
        else:
            lo, hi = e[1], e[2]
            n = a.shape[k]
            for b in (lo, hi):
                if b is not None and not (-n <= b <= n):
                    raise PanicPath("ndarray: slice out of bounds")
            idx.append(slice(lo, hi))
    sub = a[tuple(idx)]
    if not isinstance(sub, np.ndarray):
        sub = obj_array([sub], ())
    return ND(sub)


@model(r"^concatenate::<", "concatenate(Axis, views): Ok iff shapes agree off-axis")
def m_concat(eng, callee, args):
    ax = axis_of(args[0])
    vs = deref(args[1])
    arrs = [nd(x).a for x in (vs.items if isinstance(vs, RVec) else vs)]
    try:
        return Ok(ND(np.concatenate(arrs, axis=ax)))
    except ValueError:
        return Err(Opaque("ShapeError"))


@model(r"^stack::<|^ndarray::stack::<", "stack(Axis, views): Ok iff all shapes agree")
def m_stack(eng, callee, args):
    ax = axis_of(args[0])
    vs = deref(args[1])
    arrs = [nd(x).a for x in (vs.items if isinstance(vs, RVec) else vs)]
    if not arrs:
        return Err(Opaque("ShapeError"))
    try:
        return Ok(ND(np.stack(arrs, axis=ax)))
    except ValueError:
        return Err(Opaque("ShapeError"))


# --- arithmetic ---------------------------------------------------------------------------------
def operand_arr(v):
    v = deref(v)
    if isinstance(v, ND):
        return v.a
    return Num.of(v)


@model(r"^<&?" + ARR + r" as (std::ops::)?(Add|Sub|Mul|Div)(<.*>)?>::(add|sub|mul|div)$", "elementwise array arithmetic with broadcasting")
def m_arr_arith(eng, callee, args):
    a, b = operand_arr(args[0]), operand_arr(args[1])
    op = callee.rsplit("::", 1)[1]
    if isinstance(a, np.ndarray) and isinstance(b, np.ndarray) and a.shape != b.shape:
        try:
            np.broadcast_shapes(a.shape, b.shape)
        except ValueError:
            raise PanicPath("ndarray: could not broadcast")
    r = {"add": lambda: a + b, "sub": lambda: a - b, "mul": lambda: a * b, "div": lambda: a / b}[op]()
    return ND(r)


@model(r"^<&?(f32|f64|T) as (std::ops::)?(Add|Sub|Mul|Div)<&?" + ARR + r">>::(add|sub|mul|div)$", "scalar op array")
def m_scalar_arr(eng, callee, args):
    return m_arr_arith(eng, callee, args)


@model(r"^<&?" + ARR + r" as (std::ops::)?Neg>::neg$", "elementwise negation")
def m_arr_neg(eng, callee, args):
    return ND(elementwise(nd(args[0]).a, lambda x: -x))


@model(r"impl_float_maths::<impl ArrayBase<.*>>::sqrt$", "elementwise sqrt (uninterpreted)")
def m_arr_sqrt(eng, callee, args):
    return ND(elementwise(nd(args[0]).a, lambda x: num_fn("sqrt", x)))


@model(r"impl_float_maths::<impl ArrayBase<.*>>::pow2$", "elementwise square")
def m_arr_pow2(eng, callee, args):
    return ND(elementwise(nd(args[0]).a, lambda x: x * x))


@model(r"impl_float_maths::<impl ArrayBase<.*>>::recip$", "elementwise reciprocal")
def m_arr_recip(eng, callee, args):
    return ND(elementwise(nd(args[0]).a, lambda x: Num(1) / x))


@model(r"impl_float_maths::<impl ArrayBase<.*>>::abs$", "elementwise abs")
def m_arr_abs(eng, callee, args):
    return ND(elementwise(nd(args[0]).a, lambda x: ite(x.lt(0), -x, x)))


@model(r"impl_numeric::<impl ArrayBase<.*>>::mean_axis$", "mean_axis = sum along the axis / length (None when empty)")
def m_mean_axis(eng, callee, args):
    a = nd(args[0]).a
    ax = axis_of(args[1])
    n = a.shape[ax]
    if n == 0:
        return NONE()
    s = a.sum(axis=ax)
    if not isinstance(s, np.ndarray):
        s = obj_array([s], ())
    return Some(ND(elementwise(s, lambda x: x / Num(n))))


@model(r"impl_numeric::<impl ArrayBase<.*>>::sum_axis$", "sum_axis")
def m_sum_axis(eng, callee, args):
    a = nd(args[0]).a
    s = a.sum(axis=axis_of(args[1]))
    if not isinstance(s, np.ndarray):
        s = obj_array([s], ())
    return ND(s)


@model(r"impl_numeric::<impl ArrayBase<.*>>::sum$", "sum of all elements")
def m_sum(eng, callee, args):
    return total(nd(args[0]).a)


@model(r"impl_numeric::<impl ArrayBase<.*>>::mean$", "mean of all elements (None when empty)")
def m_mean(eng, callee, args):
    a = nd(args[0]).a
    if a.size == 0:
        return NONE()
    return Some(total(a) / Num(a.size))


@model(r"impl_numeric::<impl ArrayBase<.*>>::(std|var)$", "std/var with ddof (two-pass formula over the reals)")
def m_std(eng, callee, args):
    a = nd(args[0]).a
    n = a.size
    ddof = Num.of(args[1])
    m = total(a) / Num(n)
    ss = None
    for x in a.reshape(-1):
        d = (x - m) * (x - m)
        ss = d if ss is None else ss + d
    var = ss / (Num(n) - ddof)
    return num_fn("sqrt", var) if callee.endswith("std") else var


@model(r"impl_linalg::<impl ArrayBase<.*>>::dot::<", "dot product / vector-matrix product")
def m_dot(eng, callee, args):
    a, b = nd(args[0]).a, nd(args[1]).a
    r = a.dot(b)
    if isinstance(r, np.ndarray):
        return ND(r)
    return r


# --- element access ---------------------------------------------------------------------------
@model(r"^<" + ARR + r" as (std::ops::)?Index(Mut)?<.*>>::index(_mut)?$", "indexing (bounds-checked)")
def m_index(eng, callee, args):
    a = nd(args[0]).a
    i = args[1]
    if isinstance(i, Tuple):
        key = tuple(i.fields)
    elif isinstance(i, list):
        key = tuple(i)
    else:
        key = (i,)
    if len(key) != a.ndim or any(not (0 <= k < s) for k, s in zip(key, a.shape)):
        raise PanicPath("ndarray: index out of bounds")
    return Ref(a, key)


@model(r"impl_methods::<impl ArrayBase<.*>>::(first|last)$", "first/last")
def m_first_last(eng, callee, args):
    a = nd(args[0]).a
    if a.size == 0:
        return NONE()
    key = (0,) * a.ndim if callee.endswith("first") else tuple(s - 1 for s in a.shape)
    return Some(Ref(a, key))


@model(r"impl_methods::<impl ArrayBase<.*>>::(iter|iter_mut)$", "iter(): elements in logical (row-major) order")
def m_iter(eng, callee, args):
    a = nd(args[0]).a
    keys = list(np.ndindex(*a.shape))
    return PyIter([Ref(a, k) for k in keys], len(keys))


@model(r"impl_methods::<impl ArrayBase<.*>>::mapv::<", "mapv applies the closure to every element")
def m_mapv(eng, callee, args):
    a = nd(args[0]).a
    return ND(elementwise(a, lambda x: eng.call_closure(args[1], [clone_val(x)])))


@model(r"impl_methods::<impl ArrayBase<.*>>::(axis_iter|axis_iter_mut|outer_iter|outer_iter_mut)$", "axis_iter / outer_iter: views along the axis, in order")
def m_axis_iter(eng, callee, args):
    a = nd(args[0]).a
    ax = 0 if "outer_iter" in callee else axis_of(args[1])
    out = []
    for i in range(a.shape[ax]):
        idx = [slice(None)] * a.ndim
        idx[ax] = i
        out.append(ND(a[tuple(idx)]))
    return PyIter(out, len(out))


@model(r"impl_methods::<impl ArrayBase<.*>>::(axis_chunks_iter|axis_chunks_iter_mut)$", "axis_chunks_iter(axis, size): consecutive blocks along the axis (views), last one shorter")
def m_axis_chunks_iter(eng, callee, args):
    a = nd(args[0]).a
    ax = axis_of(args[1])
    size = args[2]
    if not isinstance(size, int):
        raise Unmodelled("symbolic chunk size")
    if size == 0:
        raise PanicPath("ndarray: chunk size must not be zero")
    out = []
    for lo in range(0, a.shape[ax], size):
        idx = [slice(None)] * a.ndim
        idx[ax] = slice(lo, min(lo + size, a.shape[ax]))
        out.append(ND(a[tuple(idx)]))
    return PyIter(out, len(out))


@model(r"impl_methods::<impl ArrayBase<.*>>::(lanes|lanes_mut)$", "lanes(axis): 1-D views along the axis, remaining indices in row-major order")
def m_lanes(eng, callee, args):
    a = nd(args[0]).a
    ax = axis_of(args[1])
    if a.ndim <= 1:
        return [ND(a)]
    moved = np.moveaxis(a, ax, -1)
    return [ND(moved[k]) for k in np.ndindex(*moved.shape[:-1])]


@model(r"impl_methods::<impl ArrayBase<.*>>::(rows|rows_mut)$", "rows(): lanes along the last axis")
def m_rows(eng, callee, args):
    a = nd(args[0]).a
    if a.ndim == 0:
        return [ND(a)]
    if a.ndim == 1:
        return [ND(a)]
    lead = a.shape[:-1]
    return [ND(a[k]) for k in np.ndindex(*lead)]


@model(r"^ndarray::Zip::<.*>::from::<", "Zip::from(lanes)")
def m_zip_from(eng, callee, args):
    return [list(args[0])]


@model(r"^ndarray::Zip::<.*>::and::<", "Zip::and: producers must have equal shape")
def m_zip_and(eng, callee, args):
    z = args[0]
    other = list(args[1])
    if len(other) != len(z[0]):
        raise PanicPath("ndarray: Zip shape mismatch")
    return z + [other]


@model(r"^ndarray::Zip::<.*>::fold::<", "Zip::fold applies the closure to corresponding items in order")
def m_zip_fold(eng, callee, args):
    z = args[0]
    acc = args[1]
    for items in zip(*z):
        acc = eng.call_closure(args[2], [acc] + list(items))
    return acc


@model(r"^<" + ARR + r" as PartialEq(<.*>)?>::(ne|eq)$", "array (in)equality: shapes equal and any/all elements differ/agree")
def m_arr_ne(eng, callee, args):
    a, b = nd(args[0]).a, nd(args[1]).a
    if a.shape != b.shape:
        return callee.endswith("ne")
    acc = False
    for x, y in zip(a.reshape(-1), b.reshape(-1)):
        acc = b_or(acc, Num.of(x).ne(Num.of(y)))
    if callee.endswith("ne"):
        return acc
    return (not acc) if isinstance(acc, bool) else z3.Not(acc)


@model(r"impl_methods::<impl ArrayBase<.*>>::windows_with_stride::<", "windows_with_stride(w, s): complete windows only")
def m_windows(eng, callee, args):
    a = nd(args[0]).a
    w, s = args[1], args[2]
    out = []
    i = 0
    while i + w <= a.shape[0]:
        out.append(ND(a[i:i + w]))
        i += s
    return PyIter(out, len(out))


@model(r"impl_methods::<impl ArrayBase<.*>>::assign::<", "assign: element-wise copy into the (view of the) array, shapes must broadcast")
def m_assign(eng, callee, args):
    dst = nd(args[0]).a
    src = nd(args[1]).a
    try:
        dst[...] = np.broadcast_to(src, dst.shape)
    except ValueError:
        raise PanicPath("ndarray: assign shape mismatch")
    return Tuple([])


@model(r"impl_2d::<impl ArrayBase<.*>>::row_mut$", "row_mut(i) view")
def m_row_mut(eng, callee, args):
    a = nd(args[0]).a
    i = args[1]
    if not (0 <= i < a.shape[0]):
        raise PanicPath("ndarray: index out of bounds")
    return ND(a[i, :])


@model(r"impl_methods::<impl ArrayBase<.*>>::(as_slice|as_slice_mut|as_slice_memory_order)$", "as_slice: Some(row-major elements) for contiguous arrays")
def m_as_slice(eng, callee, args):
    a = nd(args[0]).a
    return Some(Ref.to(RVec(list(a.reshape(-1)))))
