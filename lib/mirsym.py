"""mirsym — symbolic execution of rustc MIR (mini-mcmc's own functions) into z3.

Sizes are concrete, values symbolic.  Paths are explored by re-execution with a decision
prefix (no state copying); branch feasibility and obligations are decided by z3.
Every library callee needs a model (models_*.py); an unmodelled callee raises Unmodelled and
the check is reported inconclusive — never a pass.
"""
import os
import re
import time
from fractions import Fraction

import numpy as np
import z3

import mir_parse
from mir_parse import Operand, Place


class Unmodelled(Exception):
    pass


class BoundHit(Exception):
    pass


class PanicPath(Exception):
    def __init__(self, msg):
        Exception.__init__(self, msg)
        self.msg = msg


class Infeasible(Exception):
    pass


# ------------------------------------------------------------------------------------------------
# numbers
# ------------------------------------------------------------------------------------------------
MUL_MODE = {"mode": "exact"}  # 'exact' | 'uf'
_PROD = z3.Function("prod", z3.RealSort(), z3.RealSort(), z3.RealSort())
_DIV = z3.Function("quot", z3.RealSort(), z3.RealSort(), z3.RealSort())
_INV = z3.Function("recip", z3.RealSort(), z3.RealSort())
# narrowing f64 -> f32 as an uninterpreted function (only applied when an engine runs with `narrowing` on: a value that went
# through f32 on an f64 configuration is then *not* provably the value it came from)
_RND32 = z3.Function("round_to_f32", z3.RealSort(), z3.RealSort())


def narrow32(v):
    v = Num.of(v)
    if v.concrete:
        return Num(Fraction(float(np.float32(float(v.v)))), v.nan)
    return Num(_RND32(v.z()), v.nan)
UF = {}


def uf(name, arity=1):
    k = (name, arity)
    if k not in UF:
        UF[k] = z3.Function(name, *([z3.RealSort()] * (arity + 1)))
    return UF[k]


def is_z3(x):
    return isinstance(x, z3.ExprRef)


def zreal(v):
    if isinstance(v, Fraction):
        return z3.RealVal(str(v.numerator) + "/" + str(v.denominator)) if v.denominator != 1 else z3.RealVal(v.numerator)
    if isinstance(v, int):
        return z3.RealVal(v)
    return v


def int_valued(e):
    """ToReal(<integer term>): a piecewise-constant factor (counts, directions) -- multiplied / divided exactly."""
    return z3.is_app_of(e, z3.Z3_OP_TO_REAL)


def split_coef(e):
    """e = c * t with c a rational numeral (1 if none): numeric factors are pulled out of abstracted products."""
    if z3.is_app_of(e, z3.Z3_OP_UMINUS):
        c, t = split_coef(e.arg(0))
        return -c, t
    if z3.is_mul(e):
        c = Fraction(1)
        rest = []
        for ch in e.children():
            if z3.is_rational_value(ch):
                c *= Fraction(ch.numerator_as_long(), ch.denominator_as_long())
            else:
                rest.append(ch)
        if len(rest) == 1:
            c2, t = split_coef(rest[0])
            return c * c2, t
        if rest and c != 1:
            t = rest[0]
            for x in rest[1:]:
                t = t * x
            return c, t
    return Fraction(1), e


def nan_or(a, b):
    if a is None:
        return b
    if b is None:
        return a
    return z3.Or(a, b)


class Num:
    """A real number: exact Fraction when concrete, z3 Real term otherwise (R-mode floats).
    Optional `nan` flag (z3 Bool) = "this value is NaN" (N-mode): arithmetic propagates it, ordered comparisons
    and == are false on NaN, != is true -- IEEE semantics of NaN over otherwise real arithmetic."""
    __slots__ = ("v", "nan")

    def __init__(self, v, nan=None):
        if isinstance(v, Num):
            nan = nan_or(nan, v.nan)
            v = v.v
        if isinstance(v, bool):
            v = Fraction(int(v))
        if isinstance(v, int):
            v = Fraction(v)
        elif isinstance(v, float):
            v = Fraction(v)
        elif is_z3(v) and z3.is_rational_value(v):
            v = Fraction(v.numerator_as_long(), v.denominator_as_long())
        elif is_z3(v) and z3.is_int_value(v):
            v = Fraction(v.as_long())
        elif is_z3(v) and v.sort() == z3.IntSort():
            v = z3.ToReal(v)
        if not isinstance(v, Fraction) and not (is_z3(v) and v.sort() == z3.RealSort()):
            raise Unmodelled("not a real number: %r" % (v,))
        self.v = v
        self.nan = nan

    @property
    def concrete(self):
        return isinstance(self.v, Fraction)

    def z(self):
        return zreal(self.v)

    def __repr__(self):
        return "Num(%s%s)" % (self.v, "" if self.nan is None else " | nan:%s" % self.nan)

    @staticmethod
    def of(x):
        return x if isinstance(x, Num) else Num(x)

    def _with(self, r, o=None):
        n = nan_or(self.nan, o.nan if o is not None else None)
        if n is None:
            return r
        return Num(r.v, n)

    def __add__(self, o):
        o = Num.of(o)
        if self.concrete and o.concrete:
            return self._with(Num(self.v + o.v), o)
        if self.concrete and self.v == 0:
            return self._with(Num(o.v), o)
        if o.concrete and o.v == 0:
            return self._with(Num(self.v), o)
        return self._with(Num(self.z() + o.z()), o)

    __radd__ = __add__

    def __neg__(self):
        return self._with(Num(-self.v) if self.concrete else Num(-self.z()))

    def __sub__(self, o):
        o = Num.of(o)
        if self.concrete and o.concrete:
            return self._with(Num(self.v - o.v), o)
        if o.concrete and o.v == 0:
            return self._with(Num(self.v), o)
        return self._with(Num(self.z() - o.z()), o)

    def __rsub__(self, o):
        return Num.of(o) - self

    def __mul__(self, o):
        o = Num.of(o)
        return self._with(self._mul(o), o)

    def _mul(self, o):
        if self.concrete and o.concrete:
            return Num(self.v * o.v)
        if self.concrete:
            if self.v == 0 and o.nan is None:
                return Num(0)
            if self.v == 1:
                return Num(o.v)
            return Num(self.z() * o.z())
        if o.concrete:
            if o.v == 0 and self.nan is None:
                return Num(0)
            if o.v == 1:
                return Num(self.v)
            return Num(self.z() * o.z())
        # a 0/1 (or other constant-branch) selector times a value is a selection, not a product
        for sel, oth in ((self, o), (o, self)):
            e = sel.z()
            if z3.is_app_of(e, z3.Z3_OP_ITE) and z3.is_rational_value(e.arg(1)) and z3.is_rational_value(e.arg(2)):
                a1 = Num(Fraction(e.arg(1).numerator_as_long(), e.arg(1).denominator_as_long()))
                a2 = Num(Fraction(e.arg(2).numerator_as_long(), e.arg(2).denominator_as_long()))
                return Num(z3.If(e.arg(0), (a1._mul(Num(oth.v))).z(), (a2._mul(Num(oth.v))).z()))
        if MUL_MODE["mode"] == "uf" and not (int_valued(self.z()) or int_valued(o.z())):
            ca, a = split_coef(self.z())
            cb, b = split_coef(o.z())
            p = _PROD(a, b) + _PROD(b, a)
            c = ca * cb
            return Num(p) if c == 1 else Num(zreal(c) * p)
        return Num(self.z() * o.z())

    __rmul__ = __mul__

    def __truediv__(self, o):
        o = Num.of(o)
        return self._with(self._div(o), o)

    def _div(self, o):
        if o.concrete:
            if o.v == 0:
                # IEEE: x/0 is +-inf or NaN; over the reals it is left uninterpreted
                return Num(_DIV(self.z(), o.z()))
            if self.concrete:
                return Num(self.v / o.v)
            return Num(self.z() * zreal(1 / o.v))
        if MUL_MODE["mode"] == "uf" and not int_valued(o.z()):
            # a / b = a * inv(b) with an uninterpreted reciprocal: (1/b)*c, c/b and (c*a)/b then share one normal form
            return self._mul(Num(_INV(o.z())))
        return Num(self.z() / o.z())

    def __rtruediv__(self, o):
        return Num.of(o) / self

    def _cmp(self, o, op):
        o = Num.of(o)
        if self.concrete and o.concrete:
            base = {"<": self.v < o.v, "<=": self.v <= o.v, ">": self.v > o.v, ">=": self.v >= o.v,
                    "==": self.v == o.v, "!=": self.v != o.v}[op]
        else:
            a, b = self.z(), o.z()
            base = {"<": a < b, "<=": a <= b, ">": a > b, ">=": a >= b, "==": a == b, "!=": a != b}[op]
        n = nan_or(self.nan, o.nan)
        if n is None:
            return base
        if op == "!=":
            return b_or(n, base)
        return b_and(z3.Not(n), base)

    def lt(self, o):
        return self._cmp(o, "<")

    def le(self, o):
        return self._cmp(o, "<=")

    def gt(self, o):
        return self._cmp(o, ">")

    def ge(self, o):
        return self._cmp(o, ">=")

    def eq(self, o):
        return self._cmp(o, "==")

    def ne(self, o):
        return self._cmp(o, "!=")

    def is_nan(self):
        return False if self.nan is None else self.nan

    def same(self, o):
        """identical as values (NaN == NaN here): used by obligations, not by the interpreted code"""
        o = Num.of(o)
        a, b = self.is_nan(), o.is_nan()
        veq = (self.v == o.v) if (self.concrete and o.concrete) else (self.z() == o.z())
        if a is False and b is False:
            return veq
        return z3.And(zbool(a) == zbool(b), z3.Or(zbool(a), zbool(veq)))


PI = Num(z3.Real("pi"))


def pi_axioms():
    return [PI.z() > z3.RealVal("3.14159"), PI.z() < z3.RealVal("3.1416")]


def num_fn(name, *args):
    """Uninterpreted real function (ln, exp, sqrt, powf …) applied to Nums."""
    f = uf(name, len(args))
    n = None
    for a in args:
        n = nan_or(n, Num.of(a).nan)
    return Num(f(*[Num.of(a).z() for a in args]), n)


def ite(c, a, b):
    """if-then-else over values (Num / bool / int)."""
    if isinstance(c, bool):
        return a if c else b
    if isinstance(a, Num) or isinstance(b, Num):
        a, b = Num.of(a), Num.of(b)
        n = None
        if a.nan is not None or b.nan is not None:
            n = z3.If(c, zbool(a.is_nan()), zbool(b.is_nan()))
        return Num(z3.If(c, a.z(), b.z()), n)
    if isinstance(a, bool) and isinstance(b, bool):
        if a == b:
            return a
        return c if a else z3.Not(c)
    if isinstance(a, (bool, z3.BoolRef)) and isinstance(b, (bool, z3.BoolRef)):
        return z3.If(c, zbool(a), zbool(b))
    if isinstance(a, int) and isinstance(b, int) and a == b:
        return a
    return z3.If(c, zint(a), zint(b))


def zbool(b):
    return z3.BoolVal(b) if isinstance(b, bool) else b


def zint(i):
    return z3.IntVal(i) if isinstance(i, int) else i


def b_not(a):
    return (not a) if isinstance(a, bool) else z3.Not(a)


def b_and(a, b):
    if isinstance(a, bool):
        return b if a else False
    if isinstance(b, bool):
        return a if b else False
    return z3.And(a, b)


def b_or(a, b):
    if isinstance(a, bool):
        return True if a else b
    if isinstance(b, bool):
        return True if b else a
    return z3.Or(a, b)


INT_RANGES = {
    "u8": (0, 2 ** 8 - 1), "u16": (0, 2 ** 16 - 1), "u32": (0, 2 ** 32 - 1), "u64": (0, 2 ** 64 - 1),
    "usize": (0, 2 ** 64 - 1), "i8": (-2 ** 7, 2 ** 7 - 1), "i16": (-2 ** 15, 2 ** 15 - 1),
    "i32": (-2 ** 31, 2 ** 31 - 1), "i64": (-2 ** 63, 2 ** 63 - 1), "isize": (-2 ** 63, 2 ** 63 - 1),
    "u128": (0, 2 ** 128 - 1), "i128": (-2 ** 127, 2 ** 127 - 1),
}


def is_float_ty(t):
    return t in ("f32", "f64", "T", "F") or t.endswith("FloatElem")


# ------------------------------------------------------------------------------------------------
# structured values
# ------------------------------------------------------------------------------------------------
class Ref:
    __slots__ = ("cont", "key", "mut")

    def __init__(self, cont, key, mut=False):
        self.cont = cont
        self.key = key
        self.mut = mut

    def get(self):
        return self.cont[self.key]

    def set(self, v):
        self.cont[self.key] = v

    @staticmethod
    def to(value):
        return Ref([value], 0)

    def __repr__(self):
        return "Ref(%r)" % (self.get(),)


class Tuple:
    __slots__ = ("fields",)

    def __init__(self, fields):
        self.fields = list(fields)

    def __repr__(self):
        return "Tuple%r" % (tuple(self.fields),)


class Struct:
    __slots__ = ("name", "names", "fields")

    def __init__(self, name, names, fields):
        self.name = name
        self.names = list(names)
        self.fields = list(fields)

    def get(self, n):
        return self.fields[self.names.index(n)]

    def set(self, n, v):
        self.fields[self.names.index(n)] = v

    def __repr__(self):
        return "%s{%s}" % (self.name, ", ".join("%s: %r" % (n, f) for n, f in zip(self.names, self.fields)))


class Enum:
    __slots__ = ("ty", "variant", "fields")

    def __init__(self, ty, variant, fields=()):
        self.ty = ty
        self.variant = variant
        self.fields = list(fields)

    def __repr__(self):
        return "%s::%s%r" % (self.ty, self.variant, tuple(self.fields))


def Some(v):
    return Enum("Option", "Some", [v])


NONE = lambda: Enum("Option", "None", [])  # noqa: E731


def Ok(v):
    return Enum("Result", "Ok", [v])


def Err(v):
    return Enum("Result", "Err", [v])


DISCR = {
    ("Option", "None"): 0, ("Option", "Some"): 1, ("Result", "Ok"): 0, ("Result", "Err"): 1,
    ("ControlFlow", "Continue"): 0, ("ControlFlow", "Break"): 1,
    ("Ordering", "Less"): -1, ("Ordering", "Equal"): 0, ("Ordering", "Greater"): 1,
}


class Closure:
    __slots__ = ("text", "names", "fields")

    def __init__(self, text, names, fields):
        self.text = text
        self.names = list(names)
        self.fields = list(fields)

    def __repr__(self):
        return "Closure(%s)" % self.text


class RVec:
    """Vec<T> / boxed slice: a mutable Python list."""
    __slots__ = ("items",)

    def __init__(self, items=()):
        self.items = list(items)

    def __repr__(self):
        return "RVec%r" % (self.items,)


class FnItem:
    """a function used as a value"""
    __slots__ = ("path",)

    def __init__(self, path):
        self.path = path

    def __repr__(self):
        return "FnItem(%s)" % self.path


class Opaque:
    """A value the properties never look into (formatters, devices, progress bars, strings…)."""
    __slots__ = ("what",)

    def __init__(self, what=""):
        self.what = what

    def __repr__(self):
        return "Opaque(%s)" % self.what


class StrLit(Opaque):
    """A string / byte-string literal of the MIR dump; `.value` is the decoded str / bytes (None if truncated)."""
    __slots__ = ("value",)

    def __init__(self, text):
        Opaque.__init__(self, text[:40])
        self.value = decode_literal(text)


def decode_literal(t):
    isb = t.startswith("b")
    body = t[2:] if isb else t[1:]
    if not body.endswith('"'):
        return None
    body = body[:-1]
    out = bytearray()
    i = 0
    esc = {"n": 10, "t": 9, "r": 13, "0": 0, "\\": 92, '"': 34, "'": 39}
    while i < len(body):
        c = body[i]
        if c == "\\" and i + 1 < len(body):
            n = body[i + 1]
            if n == "x":
                out.append(int(body[i + 2:i + 4], 16))
                i += 4
                continue
            if n == "u":
                j = body.index("}", i)
                out += chr(int(body[i + 3:j], 16)).encode()
                i = j + 1
                continue
            if n in esc:
                out.append(esc[n])
                i += 2
                continue
        out += c.encode()
        i += 1
    return bytes(out) if isb else out.decode("utf-8", "replace")


def clone_val(v):
    if isinstance(v, Tuple):
        return Tuple([clone_val(x) for x in v.fields])
    if isinstance(v, Struct):
        return Struct(v.name, v.names, [clone_val(x) for x in v.fields])
    if isinstance(v, Enum):
        return Enum(v.ty, v.variant, [clone_val(x) for x in v.fields])
    if isinstance(v, Closure):
        return Closure(v.text, v.names, [clone_val(x) for x in v.fields])
    if isinstance(v, list):
        return [clone_val(x) for x in v]
    if isinstance(v, RVec):
        return RVec([clone_val(x) for x in v.items])
    if hasattr(v, "rust_clone"):
        return v.rust_clone()
    return v


# ------------------------------------------------------------------------------------------------
# exploration context
# ------------------------------------------------------------------------------------------------
class Ctx:
    """One path: decisions taken, path condition, fresh-symbol counters, draw log, bound hits."""

    def __init__(self, engine, prefix):
        self.engine = engine
        self.prefix = list(prefix)
        self.decisions = []  # list of (bool, forced)
        self.pc = []
        self.counters = {}
        self.draws = []  # (kind, Num)
        self.notes = []
        self.steps = 0
        self.calls = []  # trace of crate functions entered

    def fresh_real(self, base):
        k = self.counters.get(base, 0)
        self.counters[base] = k + 1
        return Num(z3.Real("%s_%d" % (base, k)))

    def fresh_bool(self, base):
        k = self.counters.get(base, 0)
        self.counters[base] = k + 1
        return z3.Bool("%s_%d" % (base, k))

    def fresh_int(self, base):
        k = self.counters.get(base, 0)
        self.counters[base] = k + 1
        return z3.Int("%s_%d" % (base, k))

    def assume(self, c):
        if isinstance(c, bool):
            if not c:
                raise Infeasible()
            return
        self.pc.append(c)
        self.engine.solver.add(c)

    def branch(self, cond, what=""):
        """Decide a (possibly symbolic) boolean; forks are scheduled by the explorer."""
        if isinstance(cond, bool):
            return cond
        cond = z3.simplify(cond)
        if z3.is_true(cond):
            return True
        if z3.is_false(cond):
            return False
        i = len(self.decisions)
        if i < len(self.prefix):
            val = self.prefix[i][0]
            forced = self.prefix[i][1]
            self.decisions.append((val, forced, what))
            c = cond if val else z3.Not(cond)
            self.pc.append(c)
            self.engine.solver.add(c)
            return val
        eng = self.engine
        t_ok = eng.feasible(cond)
        f_ok = eng.feasible(z3.Not(cond))
        if t_ok and f_ok:
            val, forced = True, False
        elif t_ok:
            val, forced = True, True
        elif f_ok:
            val, forced = False, True
        else:
            raise Infeasible()
        self.decisions.append((val, forced, what))
        c = cond if val else z3.Not(cond)
        self.pc.append(c)
        eng.solver.add(c)
        return val


class Frame:
    def __init__(self, fn, args):
        self.fn = fn
        self.locals = {}
        for i, a in enumerate(args):
            self.locals[i + 1] = a


# ------------------------------------------------------------------------------------------------
# engine
# ------------------------------------------------------------------------------------------------
class Engine:
    def __init__(self, dump, src_index=None, feas_timeout_ms=10000):
        self.dump = dump
        self.src_index = src_index or {}
        self.models = []  # (compiled regex, fn)
        self.overrides = []  # harness-level (regex, fn)
        self.typemap = {}
        self.solver = z3.Solver()
        self.solver.set("timeout", feas_timeout_ms)
        self.ctx = None
        self.max_steps = 400000
        self.loop_bounds = {}
        self.stats = {"queries": 0, "solver_s": 0.0, "paths": 0, "feas_unknown": 0, "bound_hits": 0}
        self.closure_index = {}
        self.fn_index = {}
        self.functions_entered = set()
        self._build_indices()

    # --- indices ---------------------------------------------------------------------------
    def _build_indices(self):
        for name in self.dump.names():
            raw = self.dump.raw[name]
            header = raw[:raw.index("\n")]
            m = re.search(r"\(_1: &(?:mut )?(\{closure@[^}]*\})", header) or re.search(r"\(_1: (\{closure@[^}]*\})", header)
            if m and "{closure#" in name:
                self.closure_index[m.group(1)] = name
            self.fn_index[name] = name
        # impl-at names -> Type::method using the source text
        for name in self.dump.names():
            m = re.match(r"(\w+)::<impl at (src/[^:]+):(\d+):\d+: \d+:\d+>::(.*)$", name)
            if not m:
                continue
            path = os.path.join(self.src_index.get("root", "/repo"), m.group(2))
            try:
                with open(path) as fh:
                    lines = fh.read().split("\n")
            except OSError:
                continue
            line = lines[int(m.group(3)) - 1]
            # join following lines until '{' or 'where'
            j = int(m.group(3)) - 1
            text = line
            while "{" not in text and " where" not in text and j + 1 < len(lines) and j < int(m.group(3)) + 12:
                j += 1
                text += " " + lines[j].strip()
            if text.strip().startswith("#[derive"):
                continue
            mi = re.match(r"\s*impl\s*(<.*?>)?\s*(.*)$", text)
            if not mi:
                continue
            body = mi.group(2)
            # strip generic parameter list robustly
            body = strip_leading_generics(text.strip()[4:].strip())
            mt = re.match(r"(?:(.+?)\s+for\s+)?([A-Za-z_][A-Za-z0-9_:]*)", body)
            if not mt:
                continue
            trait, ty = mt.group(1), mt.group(2)
            ty = ty.split("::")[-1]
            meth = m.group(4)
            if trait:
                tr = re.sub(r"<.*", "", trait).split("::")[-1].strip()
                self.fn_index["<%s as %s>::%s" % (ty, tr, meth)] = name
                self.fn_index.setdefault("%s::%s" % (ty, meth), name)
            else:
                self.fn_index["%s::%s" % (ty, meth)] = name

    def find_fn(self, key):
        """Resolve a normalised path ('NUTSChain::step', 'build_tree', '<T as Tr>::m') to a dump function."""
        if key in self.fn_index:
            return self.fn_index[key]
        return None

    # --- models ----------------------------------------------------------------------------
    def add_models(self, table):
        for pat, fn in table:
            self.models.append((re.compile(pat, re.S), fn))

    def override(self, pat, fn):
        self.overrides.append((re.compile(pat, re.S), fn))

    # --- solver ----------------------------------------------------------------------------
    def feasible(self, cond):
        t0 = time.time()
        r = self.solver.check(cond)
        self.stats["queries"] += 1
        self.stats["solver_s"] += time.time() - t0
        if r == z3.unknown:
            self.stats["feas_unknown"] += 1
            return True  # explore it; obligations are still decided under the path condition
        return r == z3.sat

    def concretize_int(self, e):
        """If the path condition forces the integer term `e` to one value, return it (else None)."""
        if isinstance(e, int):
            return e
        t0 = time.time()
        try:
            if self.solver.check() != z3.sat:
                return None
            val = self.solver.model().eval(e, model_completion=True)
            if not z3.is_int_value(val):
                return None
            v = val.as_long()
            if self.solver.check(e != v) == z3.unsat:
                return v
            return None
        finally:
            self.stats["queries"] += 2
            self.stats["solver_s"] += time.time() - t0

    # --- exploration -----------------------------------------------------------------------
    def explore(self, run, max_paths=2000):
        """run(ctx) -> result; yields (ctx, result) per feasible path.  result may be an exception object."""
        work = [[]]
        n = 0
        while work:
            prefix = work.pop()
            self.solver.push()
            ctx = Ctx(self, prefix)
            self.ctx = ctx
            try:
                try:
                    res = run(ctx)
                except PanicPath as p:
                    res = p
                except BoundHit as b:
                    self.stats["bound_hits"] += 1
                    res = b
                except Infeasible:
                    res = None
                # schedule the untaken sides of the new, unforced decisions
                for i in range(len(prefix), len(ctx.decisions)):
                    val, forced, what = ctx.decisions[i]
                    if not forced:
                        alt = [(d[0], d[1]) for d in ctx.decisions[:i]] + [(not val, False)]
                        work.append(alt)
                if res is not None:
                    n += 1
                    self.stats["paths"] += 1
                    yield ctx, res
            finally:
                self.solver.pop()
            if n >= max_paths:
                raise BoundHit("more than %d paths" % max_paths)

    def check_unsat(self, ctx, formula, timeout_ms=60000):
        """Is pc ∧ formula unsatisfiable?  Returns ('unsat'|'sat'|'unknown', model)."""
        s = z3.Solver()
        s.set("timeout", timeout_ms)
        for c in ctx.pc:
            s.add(c)
        s.add(formula)
        t0 = time.time()
        r = s.check()
        self.stats["queries"] += 1
        self.stats["solver_s"] += time.time() - t0
        if r == z3.sat:
            return "sat", s.model()
        if r == z3.unsat:
            return "unsat", None
        return "unknown", None

    # --- evaluation ------------------------------------------------------------------------
    def const(self, text, ty_hint=None):
        t = text.strip()
        if t.startswith("fnitem "):
            return FnItem(t[7:])
        if t == "true":
            return True
        if t == "false":
            return False
        if t == "()":
            return Tuple([])
        m = re.fullmatch(r"(-?\d+)_(u8|u16|u32|u64|usize|i8|i16|i32|i64|isize|u128|i128)", t)
        if m:
            return int(m.group(1))
        m = re.fullmatch(r"(-?[0-9.]+(?:[eE][-+]?\d+)?|-?inf|NaN)(f32|f64)", t)
        if m:
            txt = m.group(1)
            if txt in ("inf", "-inf", "NaN"):
                raise Unmodelled("non-finite float constant " + t)
            if m.group(2) == "f32":
                return Num(Fraction(float(np.float32(txt))))
            return Num(Fraction(float(txt)))
        m = re.fullmatch(r"(?:std::|core::)?(u8|u16|u32|u64|usize|i8|i16|i32|i64|isize)::(MIN|MAX)", t)
        if m:
            return INT_RANGES[m.group(1)][0 if m.group(2) == "MIN" else 1]
        if re.search(r"consts::PI$", t):
            return PI
        m = re.search(r"(f32|f64)(?:::<impl f(?:32|64)>)?::(EPSILON|MAX|MIN|MIN_POSITIVE)$", t)
        if m:
            fi = np.finfo(np.float32 if m.group(1) == "f32" else np.float64)
            val = {"EPSILON": fi.eps, "MAX": fi.max, "MIN": fi.min, "MIN_POSITIVE": fi.tiny}[m.group(2)]
            return Num(Fraction(float(val)))
        if t.startswith('"') or t.startswith('b"'):
            return StrLit(t)
        if t.startswith("PhantomData") or t.startswith("ZeroSized: PhantomData"):
            return Opaque("PhantomData")
        if t == "RangeFull":
            return Struct("RangeFull", [], [])
        m = re.match(r"ZeroSized: (\{closure@[^}]*\})", t)
        if m:
            return Closure(m.group(1), [], [])
        # named constants of the crate (e.g. stats::ALPHA, f::{constant#0}: usize = const 1_usize)
        m = re.match(r".*: \w+ = const (.*)$", t)
        if m:
            return self.const(m.group(1))
        short = t.split("::")[-1]
        for k, (ty, val) in self.dump.consts.items():
            if k == t or k.split("::")[-1] == short:
                return self.const(val)
        if t in ("Less", "Equal", "Greater"):
            return Enum("Ordering", t, [])
        if re.match(r"(std|core)::cmp::Ordering::(Less|Equal|Greater)", t):
            return Enum("Ordering", t.split("::")[-1], [])
        return Opaque("const " + t[:60])

    def resolve(self, frame, place):
        cont, key = frame.locals, place.local
        for p in place.proj:
            if p[0] == "deref":
                r = cont[key]
                if not isinstance(r, Ref):
                    raise Unmodelled("deref of non-reference %r in %s" % (r, frame.fn.name))
                cont, key = r.cont, r.key
            elif p[0] == "field":
                obj = cont[key]
                if isinstance(obj, (Tuple, Struct, Enum, Closure)):
                    cont, key = obj.fields, p[1]
                else:
                    raise Unmodelled("field %d of %r (%s) in %s" % (p[1], type(obj).__name__, p[2][:40], frame.fn.name))
            elif p[0] == "index":
                obj = cont[key]
                idx = frame.locals[p[1]]
                if not isinstance(idx, int):
                    raise Unmodelled("symbolic index")
                if isinstance(obj, RVec):
                    cont, key = obj.items, idx
                elif isinstance(obj, list):
                    cont, key = obj, idx
                else:
                    raise Unmodelled("index into %r" % type(obj).__name__)
            elif p[0] == "constindex":
                obj = cont[key]
                cont, key = (obj.items if isinstance(obj, RVec) else obj), p[1]
            elif p[0] == "downcast":
                pass
            else:
                raise Unmodelled("projection " + str(p))
        return cont, key

    def read(self, frame, place):
        cont, key = self.resolve(frame, place)
        try:
            return cont[key]
        except (KeyError, IndexError):
            raise Unmodelled("read of uninitialised %r in %s" % (place, frame.fn.name))

    def write(self, frame, place, val):
        cont, key = self.resolve(frame, place)
        if isinstance(cont, list) and isinstance(key, int) and key >= len(cont):
            while len(cont) <= key:
                cont.append(None)
        cont[key] = val

    def operand(self, frame, op):
        if op.kind == "const":
            m = re.search(r"::promoted\[(\d+)\]$", op.const.strip())
            if m:
                name = "%s::promoted[%s]" % (frame.fn.name, m.group(1))
                if name in getattr(self.dump, "promoted", {}):
                    return self.run_frame(Frame(self.dump.get(name), []), 0)
            return self.const(op.const)
        v = self.read(frame, op.place)
        if op.kind == "copy":
            return clone_val(v)
        return v

    def local_type(self, frame, place):
        if not place.proj:
            return frame.fn.local_types.get(place.local, "")
        last = place.proj[-1]
        if last[0] == "field":
            return last[2]
        return ""

    def rvalue(self, frame, rv, dest_ty=""):
        k = rv.kind
        if k == "use":
            return self.operand(frame, rv.args[0])
        if k == "ref":
            cont, key = self.resolve(frame, rv.args[0])
            return Ref(cont, key, rv.args[1] == "mut")
        if k == "binop":
            return self.binop(rv.args[0], self.operand(frame, rv.args[1]), self.operand(frame, rv.args[2]), dest_ty)
        if k == "unop":
            a = self.operand(frame, rv.args[1])
            if rv.args[0] == "Not":
                if isinstance(a, (bool, z3.BoolRef)):
                    return b_not(a)
                raise Unmodelled("bitwise Not on integer")
            if rv.args[0] == "Neg":
                return -a
            if rv.args[0] == "PtrMetadata":
                tgt = a.get() if isinstance(a, Ref) else a
                if isinstance(tgt, RVec):
                    return len(tgt.items)
                if isinstance(tgt, list):
                    return len(tgt)
                raise Unmodelled("PtrMetadata of %r" % type(tgt).__name__)
        if k == "discriminant":
            v = self.read(frame, rv.args[0])
            if isinstance(v, Enum):
                d = DISCR.get((v.ty, v.variant))
                if d is None:
                    raise Unmodelled("discriminant of %s::%s" % (v.ty, v.variant))
                return d
            raise Unmodelled("discriminant of %r" % (v,))
        if k == "len":
            v = self.read(frame, rv.args[0])
            return len(v.items) if isinstance(v, RVec) else len(v)
        if k == "cast":
            v = self.operand(frame, rv.args[0])
            ty, kind = rv.args[1], rv.args[2]
            if kind.startswith("PointerCoercion"):
                if isinstance(v, Ref):
                    tgt = v.get()
                    if isinstance(tgt, list):  # &[T; N] -> &[T]
                        return v
                return v
            if kind == "IntToFloat":
                if not isinstance(v, int):
                    c = self.concretize_int(v)
                    if c is not None:
                        v = c
                return Num(v) if isinstance(v, int) else Num(z3.ToReal(v))
            if kind == "IntToInt":
                if isinstance(v, bool):
                    return int(v)
                if isinstance(v, int):
                    lo, hi = INT_RANGES.get(ty, (None, None))
                    if lo is not None and not (lo <= v <= hi):
                        span = hi - lo + 1
                        v = (v - lo) % span + lo
                    return v
                if isinstance(v, z3.BoolRef):
                    return z3.If(v, z3.IntVal(1), z3.IntVal(0))
                return v  # symbolic ints are kept within range by the harness
            if kind == "FloatToFloat":
                return v
            if kind in ("Transmute", "PtrToPtr"):
                return v
            raise Unmodelled("cast kind " + kind)
        if k == "tuple":
            return Tuple([self.operand(frame, o) for o in rv.args[0]])
        if k == "array":
            return [self.operand(frame, o) for o in rv.args[0]]
        if k == "repeat":
            n = self.const(rv.args[1]) if not rv.args[1].isdigit() else int(rv.args[1])
            a = self.operand(frame, rv.args[0])
            return [clone_val(a) for _ in range(int(n))]
        if k == "closure":
            return Closure(rv.args[0], [n for n, _ in rv.args[1]], [self.operand(frame, o) for _, o in rv.args[1]])
        if k == "struct":
            head = rv.args[0]
            name = re.sub(r"::<.*", "", head).split("::")[-1]
            names = [n for n, _ in rv.args[1]]
            vals = [self.operand(frame, o) for _, o in rv.args[1]]
            order = self.src_index.get("structs", {}).get(name)
            if order:
                d = dict(zip(names, vals))
                # ZeroSized consts may be printed inline, keep declared order
                return Struct(name, order, [d.get(n, Opaque("zst")) for n in order])
            return Struct(name, names, vals)
        if k == "ctor":
            head = rv.args[0]
            ops = [self.operand(frame, o) for o in rv.args[1]]
            base = re.sub(r"<.*>", "", head)
            parts = [p for p in re.split(r"::", re.sub(r"::<[^>]*(?:<[^>]*>[^>]*)*>", "", head)) if p]
            last = parts[-1] if parts else head
            if last in ("Some", "None"):
                return Enum("Option", last, ops)
            if last in ("Ok", "Err"):
                return Enum("Result", last, ops)
            if last in ("Continue", "Break"):
                return Enum("ControlFlow", last, ops)
            if last in ("Less", "Equal", "Greater"):
                return Enum("Ordering", last, ops)
            if last == "Axis":
                return Struct("Axis", ["0"], ops)
            return Struct(last if len(parts) < 2 else parts[-2] + "::" + last, [str(i) for i in range(len(ops))], ops)
        raise Unmodelled("rvalue kind " + k)

    def binop(self, op, a, b, dest_ty=""):
        if op in ("AddWithOverflow", "SubWithOverflow", "MulWithOverflow"):
            base = op[:3]
            lo, hi = (0, 2 ** 64 - 1)
            m = re.match(r"\((\w+), bool\)", dest_ty or "")
            if m and m.group(1) in INT_RANGES:
                lo, hi = INT_RANGES[m.group(1)]
            if isinstance(a, int) and isinstance(b, int):
                r = {"Add": a + b, "Sub": a - b, "Mul": a * b}[base]
                return Tuple([r if lo <= r <= hi else (r - lo) % (hi - lo + 1) + lo, not (lo <= r <= hi)])
            za, zb = zint(a), zint(b)
            r = {"Add": za + zb, "Sub": za - zb, "Mul": za * zb}[base]
            ovf = z3.Or(r < lo, r > hi)
            wrapped = z3.If(r > hi, r - (hi - lo + 1), z3.If(r < lo, r + (hi - lo + 1), r))
            return Tuple([wrapped, ovf])
        if isinstance(a, Num) or isinstance(b, Num):
            a, b = Num.of(a), Num.of(b)
            if op == "Add":
                return a + b
            if op == "Sub":
                return a - b
            if op == "Mul":
                return a * b
            if op == "Div":
                return a / b
            if op in ("Lt", "Le", "Gt", "Ge", "Eq", "Ne"):
                return {"Lt": a.lt, "Le": a.le, "Gt": a.gt, "Ge": a.ge, "Eq": a.eq, "Ne": a.ne}[op](b)
            raise Unmodelled("float binop " + op)
        if isinstance(a, (bool, z3.BoolRef)) and isinstance(b, (bool, z3.BoolRef)):
            if op == "BitAnd":
                return b_and(a, b)
            if op == "BitOr":
                return b_or(a, b)
            if op == "Eq":
                return a == b if isinstance(a, bool) and isinstance(b, bool) else zbool(a) == zbool(b)
            if op == "Ne":
                return a != b if isinstance(a, bool) and isinstance(b, bool) else zbool(a) != zbool(b)
            if op == "BitXor":
                return a != b if isinstance(a, bool) and isinstance(b, bool) else z3.Xor(zbool(a), zbool(b))
            raise Unmodelled("bool binop " + op)
        if isinstance(a, int) and isinstance(b, int):
            if op in ("Add", "AddUnchecked"):
                return a + b
            if op in ("Sub", "SubUnchecked"):
                return a - b
            if op in ("Mul", "MulUnchecked"):
                return a * b
            if op == "Div":
                if b == 0:
                    raise PanicPath("attempt to divide by zero")
                return int(a / b) if (a < 0) != (b < 0) else a // b
            if op == "Rem":
                if b == 0:
                    raise PanicPath("attempt to calculate the remainder with a divisor of zero")
                return a - b * (int(a / b) if (a < 0) != (b < 0) else a // b)
            if op == "Shl":
                return a << b
            if op == "Shr":
                return a >> b
            if op == "BitAnd":
                return a & b
            if op == "BitOr":
                return a | b
            if op == "BitXor":
                return a ^ b
            if op in ("Lt", "Le", "Gt", "Ge", "Eq", "Ne"):
                return {"Lt": a < b, "Le": a <= b, "Gt": a > b, "Ge": a >= b, "Eq": a == b, "Ne": a != b}[op]
            if op == "Cmp":
                return Enum("Ordering", "Less" if a < b else ("Equal" if a == b else "Greater"), [])
        if is_z3(a) or is_z3(b):
            za, zb = zint(a), zint(b)
            if op in ("Add", "AddUnchecked"):
                return za + zb
            if op in ("Sub", "SubUnchecked"):
                return za - zb
            if op in ("Mul", "MulUnchecked"):
                return za * zb
            if op in ("Div", "Rem"):
                # machine integer division truncates; operands here are counts (non-negative), where it equals z3's div/mod
                if self.ctx is not None and self.ctx.branch(zb == 0, "division by zero"):
                    raise PanicPath("attempt to divide by zero")
                if self.ctx is not None:
                    self.ctx.assume(z3.And(za >= 0, zb > 0))
                return za / zb if op == "Div" else za % zb
            if op in ("Lt", "Le", "Gt", "Ge", "Eq", "Ne"):
                return {"Lt": za < zb, "Le": za <= zb, "Gt": za > zb, "Ge": za >= zb, "Eq": za == zb, "Ne": za != zb}[op]
            if op in ("BitXor", "BitAnd", "BitOr", "Shl", "Shr"):
                # bit operations on symbolic unsigned 64-bit integers: through 64-bit bit-vectors
                if dest_ty not in ("u64", "usize", ""):
                    raise Unmodelled("symbolic %s on %s" % (op, dest_ty))
                ba, bb = z3.Int2BV(za, 64), z3.Int2BV(zb, 64)
                r = {"BitXor": ba ^ bb, "BitAnd": ba & bb, "BitOr": ba | bb, "Shl": ba << bb, "Shr": z3.LShR(ba, bb)}[op]
                return z3.BV2Int(r, is_signed=False)
        if isinstance(a, Enum) and isinstance(b, Enum) and op in ("Eq", "Ne"):
            same = (a.ty, a.variant) == (b.ty, b.variant)
            return same if op == "Eq" else not same
        raise Unmodelled("binop %s on %r, %r" % (op, type(a).__name__, type(b).__name__))

    # --- calls -----------------------------------------------------------------------------
    def normalise(self, callee):
        """Strip generic arguments: `HMC::<T, B, G>::leapfrog` -> `HMC::leapfrog`."""
        out = []
        depth = 0
        i = 0
        s = callee
        if s.startswith("<"):
            return s
        while i < len(s):
            c = s[i]
            if c == "<":
                depth += 1
            elif c == ">":
                depth -= 1
            elif depth == 0:
                out.append(c)
            i += 1
        t = "".join(out)
        t = re.sub(r"::::", "::", t)
        t = re.sub(r"::$", "", t)
        return t

    def call(self, frame, callee, args, dest_ty=""):
        ctx = self.ctx
        for pat, fn in self.overrides:
            if pat.search(callee):
                return fn(self, callee, args)
        # crate functions
        name = None
        if callee in self.dump.raw:
            name = callee
        else:
            norm = self.normalise(callee)
            if norm in self.dump.raw:
                name = norm
            else:
                name = self.find_fn(norm)
            if name is None and callee.startswith("<"):
                m = re.match(r"<(.+?) as ([A-Za-z_:]+)(?:<.*>)?>::(\w+)", callee)
                if m:
                    ty = re.sub(r"<.*", "", m.group(1)).split("::")[-1]
                    ty = self.typemap.get(ty, ty)
                    tr = m.group(2).split("::")[-1]
                    name = self.find_fn("<%s as %s>::%s" % (ty, tr, m.group(3)))
                    if name is None and ty not in ("T", "F", "f32", "f64", "usize"):
                        # trait default method in the dump (e.g. GradientTarget::unnorm_logp_and_grad)
                        cand = "%s::%s" % (tr, m.group(3))
                        if cand in self.dump.raw:
                            name = cand
        if name is not None:
            return self.call_fn(name, args)
        for pat, fn in self.models:
            if pat.search(callee):
                return fn(self, callee, args)
        raise Unmodelled("no model for callee: " + callee)

    def call_fn(self, name, args):
        fn = self.dump.get(name)
        self.functions_entered.add(name)
        if len(args) != fn.nargs:
            raise Unmodelled("arity mismatch calling %s: %d vs %d" % (name, len(args), fn.nargs))
        frame = Frame(fn, args)
        return self.run_frame(frame, 0)

    def _complete_captures(self, frame, blk, st, clo):
        """rustc prints a closure aggregate's captures by *variable name*; two disjoint field captures of `self`
        (`self.target`, `self.current_state`) are printed as one `self: ..` entry.  When the closure body reads more capture
        slots than the aggregate shows, the missing operands are the locals assigned just before the aggregate in the same
        block that nothing else in the function uses."""
        name = self.closure_index.get(clo.text)
        if name is None:
            return clo
        body = self.dump.get(name)
        idxs = [int(m) for m in re.findall(r"\(\*?_1\)?\.(\d+):", body.text)] + [int(m) for m in re.findall(r"\(\(\*_1\)\.(\d+):", body.text)]
        need = (max(idxs) + 1) if idxs else 0
        if need <= len(clo.fields):
            return clo
        used_elsewhere = frame.fn.text
        cands = []
        for prev in blk.stmts:
            if prev is st:
                break
            pl = prev.place
            if pl.proj:
                continue
            tok = "_%d" % pl.local
            # occurrences of the local as a whole token
            n_occ = len(re.findall(r"(?<![\w])%s(?![\w])" % re.escape(tok), used_elsewhere))
            n_decl = len(re.findall(r"let (?:mut )?%s:" % re.escape(tok), used_elsewhere))
            if n_occ - n_decl == 1:  # only its own assignment
                cands.append(pl.local)
        have = set()
        vals = list(clo.fields)
        names = list(clo.names)
        for loc in cands:
            if len(vals) >= need:
                break
            if loc in frame.locals:
                vals.append(frame.locals[loc])
                names.append("capture%d" % len(vals))
        del have
        if len(vals) < need:
            raise Unmodelled("closure %s reads %d captures but the aggregate shows %d" % (clo.text[:40], need, len(clo.fields)))
        return Closure(clo.text, names, vals)

    def call_closure(self, clo, args):
        """Invoke a closure value with positional args (models of map/for_each/inplace … use this)."""
        if isinstance(clo, Ref):
            clo_ref = clo
            clo = clo.get()
        else:
            clo_ref = Ref.to(clo)
        if isinstance(clo, FnItem):
            return self.call(None, clo.path, list(args))
        if not isinstance(clo, Closure):
            raise Unmodelled("call of non-closure %r" % (clo,))
        name = self.closure_index.get(clo.text)
        if name is None:
            raise Unmodelled("closure body not found: " + clo.text)
        fn = self.dump.get(name)
        first = fn.arg_types[0] if fn.arg_types else ""
        a0 = clo_ref if first.startswith("&") else clo
        self.functions_entered.add(name)
        frame = Frame(fn, [a0] + list(args))
        if fn.nargs != 1 + len(args):
            raise Unmodelled("closure arity %s: %d vs %d" % (name, fn.nargs, 1 + len(args)))
        return self.run_frame(frame, 0)

    def run_frame(self, frame, start_bb, stop_at=None, skip_first=False):
        fn = frame.fn
        bb = start_bb
        ctx = self.ctx
        visits = {}
        first = True
        while True:
            if stop_at is not None and bb in stop_at and not (skip_first and first):
                return ("stopped", bb, frame)
            first = False
            blk = fn.blocks[bb]
            visits[bb] = visits.get(bb, 0) + 1
            lim = self.loop_bounds.get(fn.name, self.loop_bounds.get("*", 200))
            if visits[bb] > lim:
                raise BoundHit("loop bound %d in %s bb%d" % (lim, fn.name, bb))
            for st in blk.stmts:
                ctx.steps += 1
                if ctx.steps > self.max_steps:
                    raise BoundHit("step budget exhausted in " + fn.name)
                dty = self.local_type(frame, st.place)
                val = self.rvalue(frame, st.rvalue, dty)
                if isinstance(val, Closure):
                    val = self._complete_captures(frame, blk, st, val)
                self.write(frame, st.place, val)
            t = blk.term
            if t is None:
                raise Unmodelled("block without terminator in " + fn.name)
            k = t.kind
            if k == "goto":
                bb = t.a["target"]
            elif k == "return":
                return frame.locals.get(0, Tuple([]))
            elif k == "switch":
                v = self.operand(frame, t.a["op"])
                bb = self.switch(v, t)
            elif k == "drop":
                bb = t.a["target"]
            elif k == "assert":
                c = self.operand(frame, t.a["cond"])
                want = t.a["expected"]
                ok = c if want else b_not(c)
                if ctx.branch(ok, "assert " + t.a["msg"][:40]):
                    bb = t.a["target"]
                else:
                    raise PanicPath("assertion failed: " + t.a["msg"])
            elif k == "call":
                args = [self.operand(frame, a) for a in t.a["args"]]
                dty = self.local_type(frame, t.a["dest"]) if t.a["dest"] is not None else ""
                res = self.call(frame, t.a["callee"], args, dty)
                if t.a["dest"] is not None:
                    self.write(frame, t.a["dest"], res)
                if t.a["target"] is None:
                    raise PanicPath("diverging call " + t.a["callee"][:80])
                bb = t.a["target"]
            elif k == "unreachable":
                raise Unmodelled("reached `unreachable` in " + fn.name)
            elif k == "resume":
                raise PanicPath("unwind")
            else:
                raise Unmodelled("terminator " + k)

    def switch(self, v, t):
        ctx = self.ctx
        cases = t.a["cases"]
        other = t.a["otherwise"]
        if isinstance(v, bool):
            v = int(v)
        if isinstance(v, int):
            for kk, tgt in cases:
                try:
                    kv = int(kk)
                except ValueError:
                    kv = None
                if kv is not None and (kv == v or (v < 0 and kv == v % (1 << 64)) or (v < 0 and kv == v % 256)
                                       or (v < 0 and kv == v % (1 << 32))):
                    return tgt
            return other
        if isinstance(v, z3.BoolRef):
            # cases are [0: bbF, otherwise: bbT] (or 1:)
            for kk, tgt in cases:
                kv = int(kk)
                cond = v if kv == 1 else z3.Not(v)
                if ctx.branch(cond, "switch"):
                    return tgt
            return other
        if is_z3(v):
            for kk, tgt in cases:
                if ctx.branch(v == int(kk), "switch"):
                    return tgt
            return other
        raise Unmodelled("switchInt on %r" % (v,))


def strip_leading_generics(s):
    """'<T: A<B>, C> Foo<T> for Bar' -> 'Foo<T> for Bar'"""
    s = s.strip()
    if not s.startswith("<"):
        return s
    depth = 0
    for i, c in enumerate(s):
        if c == "<":
            depth += 1
        elif c == ">":
            if i > 0 and s[i - 1] == "-":
                continue
            depth -= 1
            if depth == 0:
                return s[i + 1:].strip()
    return s


# ------------------------------------------------------------------------------------------------
# loading
# ------------------------------------------------------------------------------------------------
def struct_orders(root):
    """Field declaration order of the crate's structs, from the current source."""
    out = {}
    srcdir = os.path.join(root, "src")
    for dp, _d, fs in os.walk(srcdir):
        for f in fs:
            if not f.endswith(".rs"):
                continue
            text = open(os.path.join(dp, f)).read()
            text = "\n".join(l for l in text.split("\n") if not l.strip().startswith("//"))
            for m in re.finditer(r"\bstruct\s+(\w+)\s*(<[^{;]*?>)?\s*(?:where[^{]*?)?\{(.*?)\n\}", text, re.S):
                name, body = m.group(1), m.group(3)
                fields = []
                depth = 0
                for line in body.split("\n"):
                    st = line.strip()
                    if st.startswith("//") or st.startswith("#["):
                        continue
                    mm = re.match(r"(?:pub(?:\([^)]*\))?\s+)?([a-z_][A-Za-z0-9_]*)\s*:", st)
                    if mm and depth == 0:
                        fields.append(mm.group(1))
                    depth += st.count("<") - st.count(">") - st.count("->")
                    if depth < 0:
                        depth = 0
                if fields:
                    out[name] = fields
    return out
