"""Engine M checks for NUTS: C04 (dual averaging), C03 (Algorithm 6), C14 (NUTS part), C09 (NUTS runs)."""
import random
import re
import math
from fractions import Fraction

import numpy as np
import z3

import mirsym
import mir_load
import models_core
from mcheck import MUnit, approx_eq, exp, fnum, ln, native, powf, sqrt, zval
from mirsym import (BoundHit, Num, Opaque, PanicPath, Ref, RVec, Struct, Tuple, Unmodelled, ite, b_and, b_not, zbool)
from models_burn import Ten
from models_nd import obj_array

R_ASSUME = ["R-mode: floats are mathematical reals; exp/ln/sqrt/powf are uninterpreted functions",
            "burn tensor kernels follow their documented element-wise semantics (model table); burn's autodiff is modelled: "
            "the gradient of the user's target is an uninterpreted function family"]


def vec(t):
    return [x for x in t.a.reshape(-1)]


def tensor(xs):
    return Ten(obj_array(list(xs), (len(xs),)))


class UFTarget:
    """`for all differentiable targets`: log-density and gradient are uninterpreted functions of the position."""

    def __init__(self, dim, tag="LP", nan_mode=False):
        self.dim = dim
        self.lp = z3.Function(tag, *([z3.RealSort()] * (dim + 1)))
        self.gr = [z3.Function("d%s_%d" % (tag, i), *([z3.RealSort()] * (dim + 1))) for i in range(dim)]
        self.calls = 0
        self.nan_mode = nan_mode
        # N-mode: the target may answer NaN for its value and/or its gradient at any point (uninterpreted predicates)
        self.lp_nan = z3.Function(tag + "_isnan", *([z3.RealSort()] * dim + [z3.BoolSort()]))
        self.gr_nan = z3.Function("d" + tag + "_isnan", *([z3.RealSort()] * dim + [z3.BoolSort()]))

    def pos_nan(self, xs):
        n = None
        for x in xs:
            n = mirsym.nan_or(n, Num.of(x).nan)
        return n

    def logp(self, xs):
        zs = [Num.of(x).z() for x in xs]
        if not self.nan_mode:
            return Num(self.lp(*zs))
        return Num(self.lp(*zs), mirsym.nan_or(self.lp_nan(*zs), self.pos_nan(xs)))

    def logp_is_nan(self, xs):
        zs = [Num.of(x).z() for x in xs]
        return mirsym.nan_or(self.lp_nan(*zs), self.pos_nan(xs))

    def grad(self, xs):
        zs = [Num.of(x).z() for x in xs]
        if not self.nan_mode:
            return [Num(g(*zs)) for g in self.gr]
        n = mirsym.nan_or(self.gr_nan(*zs), self.pos_nan(xs))
        return [Num(g(*zs), n) for g in self.gr]

    def install(self, eng):
        eng.overrides = [(p, f) for (p, f) in eng.overrides if "unnorm_logp_and_grad" not in p.pattern]

        def logp_and_grad(e, callee, args):
            self.calls += 1
            pos = args[1]
            while isinstance(pos, Ref):
                pos = pos.get()
            xs = vec(pos)
            return Tuple([tensor([self.logp(xs)]), tensor(self.grad(xs))])
        eng.override(r"^<GTarget as GradientTarget<T, B>>::unnorm_logp_and_grad$", logp_and_grad)


def nuts_chain_struct(eng, **kw):
    """The chain struct as the real constructor builds it (fields added by a change keep their real initial values),
    with the given fields overridden."""
    order = eng.src_index["structs"]["NUTSChain"]
    base = None
    pos = kw.get("position")
    if pos is not None and eng.ctx is not None:
        try:
            base = eng.call_fn(eng.find_fn("NUTSChain::new"), [kw.get("target", Opaque("target")), RVec(list(vec(pos))),
                                                             kw.get("target_accept_p", Num(Fraction(4, 5)))])
        except Exception:
            base = None
    if isinstance(base, Struct) and base.names == list(order):
        for k, v in kw.items():
            base.set(k, v)
        return base
    return Struct("NUTSChain", order, [kw.get(k, Opaque(k)) for k in order])


# ------------------------------------------------------------------------------------------------
# C04: dual averaging
# ------------------------------------------------------------------------------------------------
GAMMA = Fraction(0.05)
KAPPA = Fraction(0.75)
T0 = 10


def find_loop_exit(fn, var):
    """Block reached when the `while <var>` loop of `fn` ends: switchInt on a copy of the debug variable."""
    m = re.fullmatch(r"_(\d+)", fn.debug[var][0])
    local = int(m.group(1))
    for i, b in sorted(fn.blocks.items()):
        t = b.term
        if b.cleanup or t.kind != "switch" or t.a["op"].place is None:
            continue
        sw = t.a["op"].place.local
        for st in b.stmts:
            if st.place.local == sw and not st.place.proj and st.rvalue.kind == "use" and \
                    st.rvalue.args[0].place is not None and st.rvalue.args[0].place.local == local:
                for kk, tgt in t.a["cases"]:
                    if int(kk) == 0:
                        return tgt
    raise Unmodelled("loop on `%s` not found in %s" % (var, fn.name))


def c04_adaptation(out, tier, seed):
    eng = mir_load.load_engine()
    u = MUnit(out, "C04", "c04_adaptation", eng,
              functions=["NUTSChain::new", "NUTSChain::step (counter increment at entry; adaptation tail entered after the "
                         "doubling loop with arbitrary alpha, n_alpha)", "NUTSChain::init_chain"],
              bounds=["one inductive step from an ARBITRARY adaptation state (epsilon, epsilon_bar > 0, h_bar, mu, "
                      "1 <= m < 2^40, 0 <= n_discard < 2^40, n_alpha >= 1, alpha): covers histories of any length",
                      "dimension 2 for the constructor / init_chain"],
              assumptions=R_ASSUME + ["find_reasonable_epsilon is summarised by an arbitrary positive result (its loops are unbounded)"],
              out_of_scope=["finiteness of the step size in floating point", "the realised acceptance rate",
                            "quality / termination of find_reasonable_epsilon"])
    mirsym.MUL_MODE["mode"] = "exact"
    step_name = eng.find_fn("NUTSChain::step")
    new_name = eng.find_fn("NUTSChain::new")
    init_name = eng.find_fn("NUTSChain::init_chain")
    fn = eng.dump.get(step_name)
    order = eng.src_index["structs"]["NUTSChain"]

    # (1) constructor constants -------------------------------------------------------------
    def run_new(ctx):
        delta = ctx.fresh_real("delta")
        pos = [ctx.fresh_real("p") for _ in range(2)]
        s = eng.call_fn(new_name, [Opaque("target"), RVec(list(pos)), delta])
        return delta, pos, s
    for ctx, res in eng.explore(run_new):
        u.paths += 1
        if isinstance(res, Exception):
            out.inconclusive.append("c04 new: %r" % (res,))
            continue
        delta, pos, s = res
        u.equal(ctx, "constructor: gamma = 0.05", s.get("gamma"), Num(GAMMA))
        u.equal(ctx, "constructor: kappa = 0.75", s.get("kappa"), Num(KAPPA))
        u.holds(ctx, "constructor: t0 = 10 and the transition counter starts at 0", s.get("t_0") == T0 and s.get("m") == 0)
        u.equal(ctx, "constructor: averaged iterate starts at 1", s.get("epsilon_bar"), Num(1))
        u.equal(ctx, "constructor: H-bar starts at 0", s.get("h_bar"), Num(0))
        u.equal(ctx, "constructor: requested acceptance statistic is stored", s.get("target_accept_p"), delta)
        u.equal(ctx, "constructor: step size starts at the 'not yet chosen' sentinel -1", s.get("epsilon"), Num(-1))
        for i in range(2):
            u.equal(ctx, "constructor: position is the given start point", vec(s.get("position"))[i], pos[i])

    # (2) counter increment at entry of step -------------------------------------------------
    def run_prefix(ctx):
        m = ctx.fresh_int("m")
        ctx.assume(z3.And(m >= 0, m < 2 ** 40))
        me = nuts_chain_struct(eng, m=m, t_0=T0, position=tensor([ctx.fresh_real("p")]))
        frame = mirsym.Frame(fn, [Ref.to(me)])
        # run until the first call (momentum sampling): only the counter update precedes it
        bb = 0
        for _ in range(6):
            blk = fn.blocks[bb]
            for st in blk.stmts:
                eng.write(frame, st.place, eng.rvalue(frame, st.rvalue, eng.local_type(frame, st.place)))
            t = blk.term
            if t.kind == "assert":
                c = eng.operand(frame, t.a["cond"])
                ok = c if t.a["expected"] else mirsym.b_not(c)
                if not ctx.branch(ok, "assert"):
                    raise PanicPath(t.a["msg"])
                bb = t.a["target"]
            elif t.kind == "goto":
                bb = t.a["target"]
            else:
                break
        return m, me
    for ctx, res in eng.explore(run_prefix):
        u.paths += 1
        if isinstance(res, Exception):
            out.inconclusive.append("c04 prefix: %r" % (res,))
            continue
        m, me = res
        u.holds(ctx, "every transition increases the warm-up counter by exactly one", me.get("m") == m + 1, RP_ADAPT)

    # (3) adaptation tail from an arbitrary state ------------------------------------------------
    exit_bb = find_loop_exit(fn, "s")
    alpha_l = int(re.fullmatch(r"_(\d+)", fn.debug["alpha"][0]).group(1))
    nalpha_l = int(re.fullmatch(r"_(\d+)", fn.debug["n_alpha"][0]).group(1))
    seen = {"warm": 0, "frozen": 0}

    def run_tail(ctx):
        st = {}
        for k in ("epsilon", "epsilon_bar", "h_bar", "mu", "delta", "alpha"):
            st[k] = ctx.fresh_real(k)
        ctx.assume(st["epsilon"].z() > 0)
        ctx.assume(st["epsilon_bar"].z() > 0)
        m = ctx.fresh_int("m")
        nd = ctx.fresh_int("n_discard")
        na = ctx.fresh_int("n_alpha")
        ctx.assume(z3.And(m >= 1, m < 2 ** 40, nd >= 0, nd < 2 ** 40, na >= 1, na < 2 ** 20))
        me = nuts_chain_struct(eng, target_accept_p=st["delta"], epsilon=st["epsilon"], m=m, n_collect=ctx.fresh_int("n_collect"),
                               n_discard=nd, gamma=Num(GAMMA), t_0=T0, kappa=Num(KAPPA), mu=st["mu"],
                               epsilon_bar=st["epsilon_bar"], h_bar=st["h_bar"], position=tensor([ctx.fresh_real("p")]))
        frame = mirsym.Frame(fn, [Ref.to(me)])
        for loc, ty in fn.local_types.items():
            if ty == "bool" and loc not in frame.locals:
                frame.locals[loc] = False
        frame.locals[alpha_l] = st["alpha"]
        frame.locals[nalpha_l] = na
        eng.functions_entered.add(step_name + " [from bb%d]" % exit_bb)
        eng.run_frame(frame, exit_bb)
        return st, m, nd, na, me
    for ctx, res in eng.explore(run_tail):
        u.paths += 1
        if isinstance(res, Exception):
            out.inconclusive.append("c04 tail: %r" % (res,))
            continue
        st, m, nd, na, me = res
        mr, nar = Num(z3.ToReal(m)), Num(z3.ToReal(na))
        eta = Num(1) / (mr + T0)
        hbar = (Num(1) - eta) * st["h_bar"] + eta * (st["delta"] - st["alpha"] / nar)
        u.equal(ctx, "H-bar' = (1 - 1/(m+t0)) H-bar + (delta - alpha/n_alpha)/(m+t0)", me.get("h_bar"), hbar, RP_ADAPT)
        warm = m <= nd
        eps_w = exp(st["mu"] - sqrt(mr) / Num(GAMMA) * hbar)
        x = powf(mr, Num(-KAPPA))
        ebar_w = exp((Num(1) - x) * ln(st["epsilon_bar"]) + x * ln(eps_w))
        u.holds(ctx, "warm-up (m <= n_discard): epsilon' = exp(mu - sqrt(m)/gamma * H-bar'); afterwards epsilon' = epsilon-bar",
                me.get("epsilon").z() == z3.If(warm, eps_w.z(), st["epsilon_bar"].z()), RP_ADAPT)
        u.holds(ctx, "warm-up: epsilon-bar' = exp(m^-kappa ln epsilon' + (1 - m^-kappa) ln epsilon-bar); afterwards it never changes",
                me.get("epsilon_bar").z() == z3.If(warm, ebar_w.z(), st["epsilon_bar"].z()), RP_ADAPT)
        u.holds(ctx, "the step size and the averaged iterate stay positive (given exp > 0)",
                z3.And(me.get("epsilon").z() > 0, me.get("epsilon_bar").z() > 0), RP_ADAPT, None,
                exp_positive(me.get("epsilon").z()) + exp_positive(me.get("epsilon_bar").z()))
        r_w, _ = eng.check_unsat(ctx, z3.Not(warm), 20000)
        r_f, _ = eng.check_unsat(ctx, warm, 20000)
        if r_w != "unsat":
            seen["frozen"] += 1
        if r_f != "unsat":
            seen["warm"] += 1
        u.holds(ctx, "adaptation leaves the counter, warm-up length, mu and the constants alone",
                z3.And(zint_eq(me.get("m"), m), zint_eq(me.get("n_discard"), nd), me.get("mu").eq(st["mu"]) if isinstance(me.get("mu").eq(st["mu"]), z3.BoolRef) else z3.BoolVal(bool(me.get("mu").eq(st["mu"]))),
                       z3.BoolVal(me.get("t_0") == T0)))
    u.reached("adaptation step with m <= n_discard feasible", seen["warm"])
    u.reached("adaptation step with m > n_discard feasible", seen["frozen"])

    # (4) init_chain: shrinkage point and first-use heuristic ------------------------------------
    calls = {"n": 0}

    def fre(e, callee, args):
        calls["n"] += 1
        x = e.ctx.fresh_real("eps0")
        e.ctx.assume(x.z() > 0)
        return x
    eng.override(r"^find_reasonable_epsilon::<", fre)
    for first_use in (True, False):
        def run_init(ctx, first_use=first_use):
            calls["n"] = 0
            ctx.assume(z3.And(models_core.EPS.z() > 0, models_core.EPS.z() < z3.RealVal("1/1000000")))
            eps = Num(-1) if first_use else ctx.fresh_real("epsilon")
            if not first_use:
                ctx.assume(eps.z() > 0)
            pos = [ctx.fresh_real("p") for _ in range(2)]
            mu0 = ctx.fresh_real("mu")
            hb0, eb0, m0 = ctx.fresh_real("h_bar"), ctx.fresh_real("epsilon_bar"), ctx.fresh_int("m")
            me = nuts_chain_struct(eng, epsilon=eps, m=m0, n_collect=0, n_discard=0, mu=mu0, h_bar=hb0, epsilon_bar=eb0,
                                   position=tensor(pos), rng=Opaque("rng"))
            r = eng.call_fn(init_name, [Ref.to(me), 3, 2])
            return eps, pos, me, r, calls["n"], mu0, hb0, eb0, m0
        for ctx, res in eng.explore(run_init):
            u.paths += 1
            if isinstance(res, Exception):
                out.inconclusive.append("c04 init_chain: %r" % (res,))
                continue
            eps, pos, me, r, ncalls, mu0, hb0, eb0, m0 = res
            if first_use:
                u.holds(ctx, "first use: the step size is chosen by the doubling/halving heuristic, exactly once", ncalls == 1)
            else:
                u.holds(ctx, "later runs keep the adapted step size (heuristic not called again)", ncalls == 0)
                u.equal(ctx, "later runs keep the adapted step size (heuristic not called again)", me.get("epsilon"), eps)
            if first_use:
                u.equal(ctx, "shrinkage point mu = ln(10 * epsilon0), epsilon0 from the heuristic at the start point", me.get("mu"),
                        ln(Num(10) * me.get("epsilon")), lambda mo: replay_mu())
            else:
                u.equal(ctx, "the shrinkage point stays ln(10 * epsilon0) on later runs (it is not recomputed from the adapted step size)",
                        me.get("mu"), mu0, lambda mo: replay_mu())
            u.holds(ctx, "run lengths are stored for the adaptation switch", me.get("n_collect") == 3 and me.get("n_discard") == 2)
            u.holds(ctx, "starting a run leaves the accumulated adaptation state alone (H-bar, averaged iterate, warm-up counter persist across runs)",
                    z3.And(me.get("h_bar").z() == hb0.z(), me.get("epsilon_bar").z() == eb0.z(), zint_eq(me.get("m"), m0)),
                    lambda mo: replay_mu())
            smp = r.fields[1]
            u.holds(ctx, "result buffer has shape [n_collect, dim]", tuple(smp.a.shape) == (3, 2))
            for i in range(2):
                u.equal(ctx, "the first row of the result is the state at the start of the run", smp.a[0, i], pos[i])
    u.done()


def exp_positive(e):
    """axiom instances exp(t) > 0 for every exp application occurring in e"""
    out = []
    seen = set()
    stack = [e]
    while stack:
        t = stack.pop()
        if t.get_id() in seen:
            continue
        seen.add(t.get_id())
        if z3.is_app(t) and t.decl().name() == "exp":
            out.append(t > 0)
        stack.extend(t.children())
    return out


def replay_mu():
    case = {"case": "nuts_mu_persist"}
    nat = native(case)
    bad = [p for p, r in nat.items() if isinstance(r, dict) and (r.get("panic") or r.get("mu_first_is_ln_10_eps0") is False or r.get("mu_unchanged_on_second_run") is False)]
    return bool(bad), {"case": case, "native": nat, "reproduced_in": bad}


def zint_eq(a, b):
    if isinstance(a, int) and isinstance(b, int):
        return z3.BoolVal(a == b)
    za = z3.IntVal(a) if isinstance(a, int) else a
    zb = z3.IntVal(b) if isinstance(b, int) else b
    return za == zb


# ------------------------------------------------------------------------------------------------
# C03: Algorithm 6 (Hoffman & Gelman) as an independent reference over the same draws
# ------------------------------------------------------------------------------------------------
def dot(a, b):
    s = None
    for x, y in zip(a, b):
        t = x * y
        s = t if s is None else s + t
    return s


def fmin(a, b):
    a, b = Num.of(a), Num.of(b)
    return ite(a.le(b), a, b)


def ref_leapfrog(T, th, r, g, eps):
    r1 = [ri + gi * eps * Num(Fraction(1, 2)) for ri, gi in zip(r, g)]
    th1 = [ti + ri * eps for ti, ri in zip(th, r1)]
    lp1 = T.logp(th1)
    g1 = T.grad(th1)
    r2 = [ri + gi * eps * Num(Fraction(1, 2)) for ri, gi in zip(r1, g1)]
    return th1, r2, g1, lp1


def ref_uturn(thm, thp, rm, rp):
    d = [p - m for p, m in zip(thp, thm)]
    return b_and(dot(d, rm).ge(0), dot(d, rp).ge(0))


class Mismatch(Exception):
    pass


class Alg6:
    """BuildTree of Algorithm 6, evaluated along one explored path: data are If-terms, the structural decision
    (build the second subtree only if the first did not stop) is read off the path condition."""

    def __init__(self, eng, ctx, T, draws):
        self.eng, self.ctx, self.T = eng, ctx, T
        self.draws = list(draws)
        self.k = 0

    def decide(self, cond, what):
        if isinstance(cond, bool):
            return cond
        r1, _ = self.eng.check_unsat(self.ctx, z3.Not(cond), 20000)
        if r1 == "unsat":
            return True
        r2, _ = self.eng.check_unsat(self.ctx, cond, 20000)
        if r2 == "unsat":
            return False
        raise Mismatch("the implementation's path does not determine Algorithm 6's decision: " + what)

    def next_uniform(self):
        if self.k >= len(self.draws):
            raise Mismatch("Algorithm 6 needs a selection uniform the implementation did not draw")
        kind, x = self.draws[self.k]
        self.k += 1
        if kind != "uniform":
            raise Mismatch("draw %d is %s, expected a uniform" % (self.k - 1, kind))
        return x

    def build(self, th, r, g, logu, v, j, eps, joint0):
        if j == 0:
            th1, r1, g1, lp1 = ref_leapfrog(self.T, th, r, g, eps * v)
            joint = lp1 - dot(r1, r1) * Num(Fraction(1, 2))
            n1 = ite(logu.lt(joint), 1, 0)
            s1 = (logu - 1000).lt(joint)
            a1 = fmin(1, exp(joint - joint0))
            return dict(thm=th1, rm=r1, gm=g1, thp=th1, rp=r1, gp=g1, th1=th1, g1=g1, lp1=lp1, n=n1, s=s1, a=a1, na=1)
        t = self.build(th, r, g, logu, v, j - 1, eps, joint0)
        if self.decide(t["s"], "first subtree did not stop (depth %d)" % j):
            if v == -1:
                t2 = self.build(t["thm"], t["rm"], t["gm"], logu, v, j - 1, eps, joint0)
                t["thm"], t["rm"], t["gm"] = t2["thm"], t2["rm"], t2["gm"]
            else:
                t2 = self.build(t["thp"], t["rp"], t["gp"], logu, v, j - 1, eps, joint0)
                t["thp"], t["rp"], t["gp"] = t2["thp"], t2["rp"], t2["gp"]
            u = self.next_uniform()
            n1, n2 = zi(t["n"]), zi(t2["n"])
            tot = n1 + n2
            denom = z3.If(tot >= 1, tot, z3.IntVal(1))
            take = u.lt(Num(z3.ToReal(n2)) / Num(z3.ToReal(denom)))
            t["th1"] = [ite(take, a, b) for a, b in zip(t2["th1"], t["th1"])]
            t["g1"] = [ite(take, a, b) for a, b in zip(t2["g1"], t["g1"])]
            t["lp1"] = ite(take, t2["lp1"], t["lp1"])
            t["n"] = z3.simplify(tot)
            t["s"] = b_and(b_and(t["s"], t2["s"]), ref_uturn(t["thm"], t["thp"], t["rm"], t["rp"]))
            t["a"] = t["a"] + t2["a"]
            t["na"] = t["na"] + t2["na"]
        return t


def zi(x):
    return z3.IntVal(x) if isinstance(x, int) else x


def beq(a, b):
    """equality of two possibly-symbolic booleans / ints as a z3 formula"""
    if isinstance(a, (bool, z3.BoolRef)) or isinstance(b, (bool, z3.BoolRef)):
        return zbool(a) == zbool(b)
    return zi(a) == zi(b)


def RP_TREE(model):
    import m_replay
    return m_replay.replay_nuts("tree")


def RP_ADAPT(model):
    import m_replay
    return m_replay.replay_nuts("adapt")


def replay_long_trajectory(model=None):
    """transitions that need more than ten doublings (wide Gaussian, unit step size) against the reference Algorithm 6"""
    wide = {"kind": "gauss", "mean": [0.0, 0.0], "cov": [2.25e6, 0.0, 0.0, 2.25e6]}
    cases = [{"case": "nuts_step", "target": wide, "position": [100.0, -50.0], "seed": 5 + k, "delta": 0.8,
              "adapt": [1.0, 1.0, 0.0, math.log(10.0)], "m": 5, "n_discard": 2, "steps": 2} for k in range(2)]
    import m_replay
    nat = m_replay.run_batch(cases)
    hits = []
    for prof, outs in nat.items():
        if not isinstance(outs, list):
            continue
        for case, o in zip(cases, outs):
            if not isinstance(o, dict):
                continue
            if o.get("panic"):
                hits.append((prof, case, o))
                continue
            for st in o.get("steps", []):
                if not m_replay.vec_close(st["real_position"], st["reference_position"], 1e-6):
                    hits.append((prof, case, st))
                    break
    if hits:
        return True, {"case": hits[0][1], "native": hits[0][2], "what": "a long transition differs from Algorithm 6",
                      "reproduced_in": sorted(set(h[0] for h in hits))}
    return False, {"n_cases": len(cases), "native": {k: (v if not isinstance(v, list) else "ok") for k, v in nat.items()}}


def c03_loop_condition(out, tier, seed):
    """The doubling loop of NUTSChain::step from an ARBITRARY iteration count: entered at the loop head with s = true and the
    depth counter j a symbolic integer, the body (the next build_tree call) must be reached; with s = false the loop must end.
    (The step-level unit explores only the first doublings with concrete j.)"""
    eng = mir_load.load_engine()
    u = MUnit(out, "C03", "c03_loop_condition", eng, functions=["NUTSChain::step (doubling loop head, mid-function entry)"],
              bounds=["depth counter j symbolic in [0, 2^40); s in {true, false}; dimension 1"],
              assumptions=R_ASSUME, out_of_scope=["termination of the doubling loop itself (the crate has no depth limit by design)"])
    mirsym.MUL_MODE["mode"] = "uf"
    try:
        T = UFTarget(1, nan_mode=False)
        T.install(eng)
        step_name = eng.find_fn("NUTSChain::step")
        fn = eng.dump.get(step_name)
        head = find_loop_head(fn, "s")
        loc = {k: dbg_local(fn, k) for k in ("s", "j")}
        body = {i for i, b in fn.blocks.items() if not b.cleanup and b.term is not None and b.term.kind == "call"
                and "build_tree" in b.term.a["callee"]}
        for s_val in (True, False):
            def run(ctx, s_val=s_val):
                pos = [ctx.fresh_real("q")]
                me = nuts_chain_struct(eng, target=Opaque("target"), position=tensor(pos), target_accept_p=Num(Fraction(4, 5)),
                                       epsilon=Num(1), m=3, n_collect=5, n_discard=10, gamma=Num(GAMMA), t_0=T0, kappa=Num(KAPPA),
                                       mu=Num(0), epsilon_bar=Num(1), h_bar=Num(0),
                                       rng=Struct("SmallRng", ["seed"], [Opaque("state")]))
                frame = mirsym.Frame(fn, [Ref.to(me)])
                eng.functions_entered.add(step_name)
                eng.run_frame(frame, 0, stop_at={head})
                j = ctx.fresh_int("j")
                ctx.assume(z3.And(j >= 0, j < 2 ** 40))
                frame.locals[loc["j"]] = j
                frame.locals[loc["s"]] = s_val
                r = eng.run_frame(frame, head, stop_at=body, skip_first=True)
                return isinstance(r, tuple) and len(r) == 3 and r[0] == "stopped", j
            n = 0
            for ctx, res in eng.explore(run, max_paths=50):
                u.paths += 1
                if isinstance(res, Exception):
                    out.inconclusive.append("c03_loop_condition: %r" % (res,))
                    continue
                n += 1
                entered, j = res
                if s_val:
                    u.holds(ctx, "while no U-turn or divergence has occurred (s true) the trajectory is doubled again, whatever the "
                            "number of doublings made so far", entered, replay_long_trajectory, "s = true")
                else:
                    u.holds(ctx, "once s is false no further doubling is made", not entered, RP_TREE, "s = false")
            u.reached("loop head with s = %s" % s_val, n)
    finally:
        mirsym.MUL_MODE["mode"] = "exact"
    u.done()


def c03_build_tree(out, tier, seed):
    eng = mir_load.load_engine()
    mirsym.MUL_MODE["mode"] = "uf"
    depths = [0, 1, 2] if tier == "quick" else [0, 1, 2, 3]
    dims = [1, 2] if tier == "quick" else [1, 2, 3]
    u = MUnit(out, "C03", "c03_build_tree", eng,
              functions=["nuts::build_tree (recursion executed at concrete depth)", "nuts::leapfrog", "nuts::stop_criterion"],
              bounds=["tree depth j in %s, both directions, dimension in %s; position, momentum, slice level, step size, "
                      "joint_0 and every selection uniform arbitrary reals; target and gradient uninterpreted" % (depths, dims)],
              assumptions=R_ASSUME + ["products of two symbolic reals are abstracted by a commutative uninterpreted product "
                                      "(over-approximation: UNSAT is sound)", "build_tree is entered with the gradient at the "
                                      "given position (its callers' invariant)"],
              out_of_scope=["depths above %d (the recursion is uniform in j)" % depths[-1], "rounding", "burn kernels / autodiff"])
    try:
        for dim in dims:
            for j in depths:
                if (dim == 3 and j >= 2) or (dim == 2 and j >= 3) or (tier == "quick" and dim == 2 and j == 2):
                    continue
                for v in (-1, 1):
                    _build_tree_config(eng, u, out, dim, j, v)
    finally:
        mirsym.MUL_MODE["mode"] = "exact"
    u.done()


def _build_tree_config(eng, u, out, dim, j, v):
    T = UFTarget(dim)
    T.install(eng)
    eng.loop_bounds["*"] = 400
    n_paths = {"merge_taken": 0, "stopped_first": 0, "total": 0}

    def run(ctx):
        th = [ctx.fresh_real("th") for _ in range(dim)]
        r = [ctx.fresh_real("r") for _ in range(dim)]
        logu = ctx.fresh_real("logu")
        eps = ctx.fresh_real("eps")
        joint0 = ctx.fresh_real("joint0")
        g = T.grad(th)
        n0 = len(ctx.draws)
        rng = Ref.to(Struct("SmallRng", ["seed"], [Opaque("state")]))
        res = eng.call_fn("build_tree", [tensor(th), tensor(r), tensor(g), logu, v, j, eps, Ref.to(Opaque("target")), joint0, rng])
        return th, r, g, logu, eps, joint0, res, ctx.draws[n0:]
    for ctx, res in eng.explore(run, max_paths=4000):
        u.paths += 1
        if isinstance(res, Exception):
            out.inconclusive.append("c03_build_tree dim=%d j=%d v=%d: %r" % (dim, j, v, res))
            continue
        th, r, g, logu, eps, joint0, impl, draws = res
        inst = "dim=%d depth=%d direction=%+d" % (dim, j, v)
        f = impl.fields
        try:
            a6 = Alg6(eng, ctx, T, draws)
            t = a6.build(th, r, g, logu, v, j, eps, joint0)
            if a6.k != len(draws):
                raise Mismatch("the implementation drew %d uniforms, Algorithm 6 uses %d" % (len(draws), a6.k))
        except Mismatch as e:
            u.holds(ctx, "build_tree follows Algorithm 6's control flow and draw order", False, RP_TREE, inst + ": " + str(e))
            continue
        n_paths["total"] += 1
        pairs = [("backward end of the subtree (position, momentum, gradient)", vec(f[0]) + vec(f[1]) + vec(f[2]), t["thm"] + t["rm"] + t["gm"]),
                 ("forward end of the subtree (position, momentum, gradient)", vec(f[3]) + vec(f[4]) + vec(f[5]), t["thp"] + t["rp"] + t["gp"]),
                 ("candidate drawn from the subtree (position, gradient, log-density)", vec(f[6]) + vec(f[7]) + vec(f[8]), t["th1"] + t["g1"] + [t["lp1"]])]
        for label, a, b in pairs:
            conj = z3.And([Num.of(x).eq(Num.of(y)) if not isinstance(Num.of(x).eq(Num.of(y)), bool) else z3.BoolVal(Num.of(x).eq(Num.of(y)))
                           for x, y in zip(a, b)])
            u.holds(ctx, "build_tree = Algorithm 6: " + label, conj, RP_TREE, inst)
        u.holds(ctx, "build_tree = Algorithm 6: number of slice-admissible points n'", beq(f[9], t["n"]), RP_TREE, inst)
        u.holds(ctx, "build_tree = Algorithm 6: continue flag s' (no divergence, no U-turn, no stopped subtree)", beq(f[10], t["s"]), RP_TREE, inst)
        u.equal(ctx, "build_tree = Algorithm 6: acceptance statistic sum alpha'", f[11], t["a"], RP_TREE, inst)
        u.holds(ctx, "build_tree = Algorithm 6: acceptance statistic count n_alpha' = 2^j leapfrogs actually taken", beq(f[12], t["na"]), RP_TREE, inst)
    u.reached("build_tree paths at dim=%d depth=%d v=%d" % (dim, j, v), n_paths["total"])



# ------------------------------------------------------------------------------------------------
# C03 (transition level) and C14 (NUTS part): NUTSChain::step against Algorithm 6's outer loop
# ------------------------------------------------------------------------------------------------
def find_loop_head(fn, var):
    m = re.fullmatch(r"_(\d+)", fn.debug[var][0])
    local = int(m.group(1))
    for i, b in sorted(fn.blocks.items()):
        t = b.term
        if b.cleanup or t.kind != "switch" or t.a["op"].place is None:
            continue
        sw = t.a["op"].place.local
        for st in b.stmts:
            if st.place.local == sw and not st.place.proj and st.rvalue.kind == "use" and \
                    st.rvalue.args[0].place is not None and st.rvalue.args[0].place.local == local:
                return i
    raise Unmodelled("loop on `%s` not found in %s" % (var, fn.name))


def dbg_local(fn, name):
    return int(re.fullmatch(r"_(\d+)", fn.debug[name][0]).group(1))


def _nuts_step_paths(eng, dim, doublings, nan_mode):
    """Explore NUTSChain::step with an uninterpreted target up to `doublings` iterations of the doubling loop.
    The loop state (position, s, n, alpha, n_alpha) is observed at every visit of the loop head; a path ends when the
    loop exits (the adaptation tail is then executed too) or after `doublings` iterations (stated bound)."""
    T = UFTarget(dim, nan_mode=nan_mode)
    T.install(eng)
    step_name = eng.find_fn("NUTSChain::step")
    fn = eng.dump.get(step_name)
    head = find_loop_head(fn, "s")
    exit_bb = find_loop_exit(fn, "s")
    loc = {k: dbg_local(fn, k) for k in ("s", "n", "alpha", "n_alpha", "j")}
    eng.loop_bounds["*"] = 400

    def run(ctx):
        pos = [ctx.fresh_real("q") for _ in range(dim)]
        st = {k: ctx.fresh_real(k) for k in ("epsilon", "epsilon_bar", "h_bar", "mu", "delta")}
        ctx.assume(st["epsilon"].z() > 0)
        ctx.assume(st["epsilon_bar"].z() > 0)
        m0 = 3
        me = nuts_chain_struct(eng, target=Opaque("target"), position=tensor(pos), target_accept_p=st["delta"],
                               epsilon=st["epsilon"], m=m0, n_collect=5, n_discard=10, gamma=Num(GAMMA), t_0=T0, kappa=Num(KAPPA),
                               mu=st["mu"], epsilon_bar=st["epsilon_bar"], h_bar=st["h_bar"],
                               rng=Struct("SmallRng", ["seed"], [Opaque("state")]))
        if nan_mode:
            ctx.assume(z3.Not(T.logp_is_nan(pos)))
        n0 = len(ctx.draws)
        eng.functions_entered.add(step_name)
        frame = mirsym.Frame(fn, [Ref.to(me)])
        snaps = []
        r = eng.run_frame(frame, 0, stop_at={head})
        k = 0
        finished = False
        while True:
            snaps.append({"position": vec(me.get("position")), "s": frame.locals[loc["s"]], "n": frame.locals[loc["n"]],
                          "alpha": frame.locals[loc["alpha"]], "n_alpha": frame.locals[loc["n_alpha"]],
                          "ndraws": len(ctx.draws) - n0})
            cont = ctx.branch(frame.locals[loc["s"]], "loop")
            if not cont:
                eng.run_frame(frame, exit_bb)  # adaptation tail
                finished = True
                break
            if k >= doublings:
                break
            r = eng.run_frame(frame, head, stop_at={head}, skip_first=True)
            k += 1
        return pos, st, me, ctx.draws[n0:], m0, snaps, finished
    return T, eng.explore(run, max_paths=20000)


class Alg6Step(Alg6):
    def next_kind(self, kind):
        if self.k >= len(self.draws):
            raise Mismatch("Algorithm 6 needs a %s draw the implementation did not make" % kind)
        k, x = self.draws[self.k]
        self.k += 1
        if k != kind:
            raise Mismatch("draw %d is %s, Algorithm 6 expects %s" % (self.k - 1, k, kind))
        return x

    def transition(self, pos, eps, n_iter):
        """state of Algorithm 6's outer loop after each of the first n_iter doublings (list of snapshots)"""
        T = self.T
        dim = len(pos)
        r0 = [self.next_kind("normal") for _ in range(dim)]
        lp0 = T.logp(pos)
        g0 = T.grad(pos)
        joint = lp0 - dot(r0, r0) * Num(Fraction(1, 2))
        logu = joint - self.next_kind("exp1")
        thm, thp, rm, rp, gm, gp = list(pos), list(pos), list(r0), list(r0), list(g0), list(g0)
        cur = list(pos)
        n = 1
        alpha, n_alpha = Num(0), 0
        cont = True
        snaps = [dict(position=list(cur), s=True, n=1, alpha=alpha, n_alpha=0)]
        for j in range(n_iter):
            u1 = self.next_kind("uniform")
            fwd = self.decide(u1.lt(Num(Fraction(1, 2))), "direction of doubling %d" % j)
            if fwd:
                t = self.build(thp, rp, gp, logu, 1, j, eps, joint)
                thp, rp, gp = t["thp"], t["rp"], t["gp"]
            else:
                t = self.build(thm, rm, gm, logu, -1, j, eps, joint)
                thm, rm, gm = t["thm"], t["rm"], t["gm"]
            alpha, n_alpha = t["a"], t["na"]
            u2 = self.next_kind("uniform")
            ratio = Num(z3.ToReal(zi(t["n"]))) / Num(z3.ToReal(zi(n)))
            take = b_and(t["s"], u2.lt(fmin(1, ratio)))
            cur = [ite(take, a, b) for a, b in zip(t["th1"], cur)]
            n = z3.simplify(zi(n) + zi(t["n"]))
            cont = b_and(t["s"], ref_uturn(thm, thp, rm, rp))
            snaps.append(dict(position=list(cur), s=cont, n=n, alpha=alpha, n_alpha=n_alpha))
        return snaps


def _check_step_snaps(u, eng, ctx, T, res, doublings, inst, nan_obl=False):
    pos, st, me, draws, m0, snaps, finished = res
    k_done = len(snaps) - 1
    a6 = Alg6Step(eng, ctx, T, draws)
    ref = a6.transition(pos, st["epsilon"], k_done)
    if a6.k != len(draws):
        raise Mismatch("the implementation made %d draws in %d doublings, Algorithm 6 uses %d" % (len(draws), k_done, a6.k))
    for k in range(1, k_done + 1):
        a, b = snaps[k], ref[k]
        conj = z3.And([zbool(Num.of(x).same(Num.of(y))) for x, y in zip(a["position"], b["position"])])
        u.holds(ctx, "after every doubling the current state is the one Algorithm 6 selects for the same draws", conj, RP_TREE, inst)
        u.holds(ctx, "the trajectory keeps doubling exactly while Algorithm 6 does (no stop, no U-turn)", beq(a["s"], b["s"]), RP_TREE, inst)
        u.holds(ctx, "the running count of slice-admissible points matches Algorithm 6", beq(a["n"], b["n"]), RP_TREE, inst)
        u.holds(ctx, "the acceptance statistic of the last doubling matches Algorithm 6 (sum and count)",
                z3.And(zbool(Num.of(a["alpha"]).same(Num.of(b["alpha"]))), beq(a["n_alpha"], b["n_alpha"])), RP_TREE, inst)
    if finished and k_done >= 1:
        mr = Num(m0 + 1)
        eta = Num(1) / (mr + T0)
        last = ref[k_done]
        hbar = (Num(1) - eta) * st["h_bar"] + eta * (st["delta"] - last["alpha"] / Num(last["n_alpha"]))
        u.equal(ctx, "the acceptance statistic driving adaptation is the mean of min(1, exp(energy change)) over the last doubling",
                me.get("h_bar"), hbar, RP_TREE, inst)
    return k_done, finished


def c03_step(out, tier, seed):
    eng = mir_load.load_engine()
    mirsym.MUL_MODE["mode"] = "uf"
    cfgs = [(1, 2)] if tier == "quick" else [(1, 2), (2, 1), (2, 2)]
    u = MUnit(out, "C03", "c03_step", eng,
              functions=["NUTSChain::step (whole transition incl. the doubling loop and the adaptation tail)", "nuts::build_tree",
                         "nuts::leapfrog", "nuts::stop_criterion"],
              bounds=["(dimension, doublings explored) in %s; the loop state is compared with Algorithm 6 after every doubling; "
                      "every draw (momentum, slice variate, direction / selection / acceptance uniforms) an arbitrary value of "
                      "its range" % (cfgs,)],
              assumptions=R_ASSUME + ["products of two symbolic reals abstracted by a commutative uninterpreted product"],
              out_of_scope=["doublings beyond the bound (the loop body is the same code)", "rounding"])
    try:
        for dim, dbl in cfgs:
            T, paths = _nuts_step_paths(eng, dim, dbl, False)
            done = fin = 0
            for ctx, res in paths:
                u.paths += 1
                if isinstance(res, Exception):
                    out.inconclusive.append("c03_step dim=%d: %r" % (dim, res))
                    continue
                inst = "dim=%d, %d draws, %d doublings" % (dim, len(res[3]), len(res[5]) - 1)
                try:
                    k, finished = _check_step_snaps(u, eng, ctx, T, res, dbl, inst)
                except Mismatch as e:
                    u.holds(ctx, "the transition follows Algorithm 6's control flow and draw order", False, RP_TREE, inst + ": " + str(e))
                    continue
                done += 1
                fin += 1 if finished else 0
            u.reached("transition paths explored at dim=%d" % dim, done)
            u.reached("transitions that end within the bound (adaptation tail executed) at dim=%d" % dim, fin)
            out.bounds.append("c03_step dim=%d doublings<=%d: %d paths, %d ended within the bound" % (dim, dbl, done, fin))
    finally:
        mirsym.MUL_MODE["mode"] = "exact"
    u.done()


def RP_NAN(model):
    import m_replay
    return m_replay.replay_nan("nuts")


def c14_nuts(out, tier, seed):
    eng = mir_load.load_engine()
    mirsym.MUL_MODE["mode"] = "uf"
    dbl = 1 if tier == "quick" else 2
    u = MUnit(out, "C14", "c14_nuts", eng,
              functions=["NUTSChain::step", "nuts::build_tree", "nuts::leapfrog", "nuts::stop_criterion"],
              bounds=["dimension 1, %d doubling(s) explored; target value and gradient may be NaN at any point "
                      "(uninterpreted predicates), the start point has a non-NaN density" % dbl],
              assumptions=["N-mode: real arithmetic plus a NaN flag with IEEE semantics (ordered comparisons false on NaN, "
                           "arithmetic propagates, f::min ignores NaN); a target evaluated at a NaN position answers NaN",
                           "-inf densities are covered as arbitrarily negative reals only (not exactly)"] + R_ASSUME[1:],
              out_of_scope=["hangs (the doubling loop and find_reasonable_epsilon are unbounded)", "overflow to +-inf inside burn kernels"])
    try:
        T, paths = _nuts_step_paths(eng, 1, dbl, True)
        done = 0
        for ctx, res in paths:
            u.paths += 1
            if isinstance(res, Exception):
                out.inconclusive.append("c14_nuts: %r" % (res,))
                continue
            pos, st, me, draws, m0, snaps, finished = res
            done += 1
            for sn in snaps[1:]:
                u.holds(ctx, "NUTS never moves to a state whose log-density is NaN (nor to NaN coordinates)",
                        z3.Not(T.logp_is_nan(sn["position"])), RP_NAN)
        u.reached("NUTS transition paths explored with a NaN-capable target", done)
    finally:
        mirsym.MUL_MODE["mode"] = "exact"
    u.done()


def c07_nuts_set_seed(out, tier, seed):
    eng = mir_load.load_engine()
    u = MUnit(out, "C07", "c07_nuts_set_seed", eng, functions=["NUTS::set_seed", "NUTSChain::set_seed"],
              bounds=["seed symbolic over all of u64; 3 chains (4 thorough)"],
              assumptions=["SmallRng::seed_from_u64 is identified with its seed (injective); integers are mathematical integers "
                           "with the machine ranges enforced by rustc's overflow assertions"],
              out_of_scope=["statistical quality of the streams"])
    fn = eng.find_fn("NUTS::set_seed")
    n = 3 if tier == "quick" else 4

    def run(ctx):
        s = ctx.fresh_int("seed")
        ctx.assume(z3.And(s >= 0, s <= 2 ** 64 - 1))
        chains = [nuts_chain_struct(eng, m=c, position=tensor([Num(0)]), rng=Struct("SmallRng", ["seed"], [Opaque("os")])) for c in range(n)]
        me = Struct("NUTS", eng.src_index["structs"]["NUTS"], [RVec(chains)])
        r = eng.call_fn(fn, [me, s])
        return s, r
    done = 0
    for ctx, res in eng.explore(run):
        u.paths += 1

        def replay(model):
            return replay_nuts_seed()
        if isinstance(res, PanicPath):
            u.holds(ctx, "set_seed accepts every 64-bit seed (no overflow panic at the top of the range)", False, replay, str(res)[:80])
            continue
        if isinstance(res, Exception):
            out.inconclusive.append("c07_nuts_set_seed: %r" % (res,))
            continue
        done += 1
        s, r = res
        seeds = [c.get("rng").fields[0] for c in r.get("chains").items]
        ok = all(not isinstance(x, Opaque) for x in seeds)
        u.holds(ctx, "set_seed reseeds every chain", ok, replay)
        if ok:
            conj = [zi(seeds[i]) != zi(seeds[j]) for i in range(n) for j in range(i + 1, n)]
            u.holds(ctx, "seeded NUTS chains have pairwise distinct generators", z3.And(conj), replay)
            rng = z3.And([z3.And(zi(x) >= 0, zi(x) <= 2 ** 64 - 1) for x in seeds])
            u.holds(ctx, "chain seeds are 64-bit values", rng, replay)
    u.reached("set_seed completes", done)
    u.done()


def replay_nuts_seed():
    tried = []
    for seed in (2 ** 64 - 2, 2 ** 64 - 1, 2 ** 64 - 3, 7):
        case = {"case": "nuts_set_seed_max", "seed": seed}
        nat = native(case)
        bad = [p for p, r in nat.items() if isinstance(r, dict) and (r.get("panic") or r.get("distinct") is False or r.get("reproducible") is False)]
        tried.append({"case": case, "native": nat})
        if bad:
            return True, {"case": case, "native": nat, "reproduced_in": bad}
    return False, {"tried": tried}


def c07_nuts_hidden_randomness(out, tier, seed):
    """every draw of a NUTS transition comes from the chain's own generator (no thread-local / process-global stream)"""
    eng = mir_load.load_engine()
    mirsym.MUL_MODE["mode"] = "uf"
    u = MUnit(out, "C07", "c07_nuts_hidden_randomness", eng, functions=["NUTSChain::step", "nuts::build_tree"],
              bounds=["dimension 1, 2 doublings; every path"],
              assumptions=["draws through rand::rng() / rand::random / Tensor::random are logged as 'global', draws through a SmallRng as the chain's own"],
              out_of_scope=["thread schedules"])
    try:
        T, paths = _nuts_step_paths(eng, 1, 2, False)
        n = 0
        for ctx, res in paths:
            u.paths += 1
            if isinstance(res, Exception):
                out.inconclusive.append("c07_nuts_hidden_randomness: %r" % (res,))
                continue
            n += 1
            kinds = [k for k, _ in res[3]]
            u.holds(ctx, "a NUTS transition uses no randomness other than the chain's own seeded generator",
                    not any(k.startswith("global") for k in kinds), RP_TREE, str(kinds))
        u.reached("NUTS transition paths", n)
    finally:
        mirsym.MUL_MODE["mode"] = "exact"
    u.done()


def c08_nuts_streams(out, tier, seed):
    """NUTS chains are driven by distinct streams: unseeded -- every chain's generator comes from its own OS-entropy request
    (not a clone of another chain's); seeded -- pairwise distinct seeds for every 64-bit seed."""
    eng = mir_load.load_engine()
    n = 3 if tier == "quick" else 5
    u = MUnit(out, "C08", "c08_nuts_streams", eng, functions=["NUTS::new (+ closure)", "NUTSChain::new", "NUTS::set_seed"],
              bounds=["%d chains; seed symbolic over all of u64" % n],
              assumptions=["SmallRng::from_os_rng() yields a generator identified by the entropy request that produced it (distinct requests, "
                           "distinct generators, up to the OS); seed_from_u64 is identified with its seed"],
              out_of_scope=["statistical independence of the streams"])
    new = eng.find_fn("NUTS::new")
    sset = eng.find_fn("NUTS::set_seed")

    def run(ctx):
        s = ctx.fresh_int("seed")
        ctx.assume(z3.And(s >= 0, s <= 2 ** 64 - 1))
        init = RVec([RVec([ctx.fresh_real("p")]) for _ in range(n)])
        me = eng.call_fn(new, [Opaque("target"), init, Num(Fraction(4, 5))])
        ids = [c.get("rng").fields[0] for c in me.get("chains").items]
        seeded = eng.call_fn(sset, [me, s])
        seeds = [c.get("rng").fields[0] for c in seeded.get("chains").items]
        return ids, seeds
    for ctx, res in eng.explore(run):
        u.paths += 1
        if isinstance(res, Exception):
            u.holds(ctx, "building and seeding a multi-chain NUTS sampler does not fail", False, lambda m: replay_nuts_seed(), repr(res)[:100])
            continue
        ids, seeds = res
        what = [getattr(x, "what", repr(x)) for x in ids]
        u.holds(ctx, "unseeded NUTS chains each get a generator from their own OS-entropy request (no two chains share one)",
                len(set(what)) == len(what) and all("os entropy request" in w for w in what), lambda m: replay_nuts_unseeded(), str(what))
        ok = all(not isinstance(x, Opaque) for x in seeds)
        if ok:
            conj = [zi(seeds[i]) != zi(seeds[j]) for i in range(len(seeds)) for j in range(i + 1, len(seeds))]
            u.holds(ctx, "seeded NUTS chains have pairwise distinct generators", z3.And(conj), lambda m: replay_nuts_seed())
        else:
            u.holds(ctx, "set_seed reseeds every chain", False, lambda m: replay_nuts_seed())
    u.done()


def replay_nuts_unseeded():
    nat = native({"case": "nuts_unseeded_distinct"})
    bad = [p for p, r in nat.items() if isinstance(r, dict) and (r.get("panic") or r.get("distinct") is False)]
    return bool(bad), {"case": {"case": "nuts_unseeded_distinct"}, "native": nat, "reproduced_in": bad}
