"""Engine M checks for the statistics code: C11 (split R-hat), C13 (trackers / progress R-hat), C12 (ESS)."""
import itertools
import math
import random

import numpy as np
import z3

import mcheck
import mir_load
import mirsym
from mcheck import MUnit, approx_eq, fnum, native, sqrt, zval
from mirsym import Num, Opaque, PanicPath, Ref, RVec, Struct, Tuple, BoundHit
from models_nd import ND, obj_array

from fractions import Fraction
ALPHA_F32 = Num(Fraction(float(np.float32(0.01))))

R_ASSUME = ["R-mode: f32 values are mathematical reals; rounding, overflow and NaN are outside this obligation",
            "sqrt is an uninterpreted function (only congruence is used)"]


# ------------------------------------------------------------------------------------------------
# specifications (work on Num or float)
# ------------------------------------------------------------------------------------------------
def mean(xs):
    s = xs[0]
    for x in xs[1:]:
        s = s + x
    return s / len(xs)


def split_halves(chain):
    n = len(chain)
    h = n // 2
    return [chain[:h], chain[n - h:]]


def spec_rhat_from_chains(chains, biased_within):
    """chains: list of equal-length lists.  Classical R-hat = sqrt(var+/W)."""
    m = len(chains)
    n = len(chains[0])
    means = [mean(c) for c in chains]
    gm = mean(means)
    b_over_n = None
    for mj in means:
        d = (mj - gm) * (mj - gm)
        b_over_n = d if b_over_n is None else b_over_n + d
    b_over_n = b_over_n / (m - 1)
    ws = []
    for c, mj in zip(chains, means):
        ss = None
        for x in c:
            d = (x - mj) * (x - mj)
            ss = d if ss is None else ss + d
        ws.append(ss / (n if biased_within else (n - 1)))
    w = mean(ws)
    var_plus = w * (n - 1) / n + b_over_n
    return w, var_plus


def num_or_float_div(a, b):
    return a / b


# ------------------------------------------------------------------------------------------------
# C11: split R-hat
# ------------------------------------------------------------------------------------------------
def c11_split_rhat(out, tier, seed):
    eng = mir_load.load_engine()
    configs = [(1, 4, 1), (2, 4, 1), (1, 5, 2), (2, 5, 1)]
    if tier == "thorough":
        configs += [(3, 4, 1), (2, 6, 2), (1, 7, 1), (3, 5, 2), (1, 8, 1)]
    u = MUnit(out, "C11", "c11_split_rhat", eng,
              functions=["stats::split_rhat_mean_ess (rhat output)", "stats::splitcat", "stats::withinvar",
                         "stats::withinvar::{closure#0} (+ inner closures)", "stats::rhat"],
              bounds=["(chains, draws, params) in %s; every sample entry an arbitrary real" % (configs,)],
              assumptions=R_ASSUME + ["W > 0 and var+ > 0 assumed (constant parameters are the NaN case, excluded here)"],
              out_of_scope=["f32 rounding of R-hat", "arrays beyond the listed sizes (the code is uniform in the sizes)"])
    for (c, n, p) in configs:
        def run(ctx, c=c, n=n, p=p):
            xs = [ctx.fresh_real("x") for _ in range(c * n * p)]
            sample = ND(obj_array(xs, (c, n, p)))
            sp = eng.call_fn("splitcat", [sample])
            wv = eng.call_fn("withinvar", [ND(sp.a)])
            w, v = wv.fields
            r = eng.call_fn("rhat", [ND(w.a), ND(v.a)])
            return xs, sp, w, v, r
        for ctx, res in eng.explore(run):
            u.paths += 1
            if isinstance(res, Exception):
                out.inconclusive.append("c11_split_rhat %s: %r" % ((c, n, p), res))
                continue
            xs, sp, w, v, r = res
            arr = np.array(xs, dtype=object).reshape(c, n, p)
            u.holds(ctx, "split halves: shape is (2*chains, draws/2, params)", sp.a.shape == (2 * c, n // 2, p))
            for d in range(p):
                halves = []
                for ci in range(c):
                    halves += [h for h in split_halves([arr[ci, t, d] for t in range(n)])]
                # order of half-chains in the implementation: first halves of all chains, then second halves
                specs = []
                for biased in (True, False):
                    if (n // 2) - 1 == 0 and not biased:
                        continue
                    w_s, vp_s = spec_rhat_from_chains(halves, biased)
                    specs.append((w_s, vp_s))
                impl = r.a[d]
                # positivity assumptions on the spec quantities (biased variant)
                ax = [specs[0][0].z() > 0, specs[0][1].z() > 0]
                disj = z3.Or([impl.z() == sqrt(vp / w_).z() for (w_, vp) in specs])
                inst = "chains=%d draws=%d params=%d param=%d" % (c, n, p, d)

                def replay(model, c=c, n=n, p=p, d=d, xs=xs):
                    return replay_split_rhat(model, xs, c, n, p, d)
                u.holds(ctx, "split R-hat of a parameter equals sqrt(var+/W) of the half-chains", disj, replay, inst, ax)
                # non-interference: the parameter's R-hat mentions only that parameter's draws
                own = set(str(arr[ci, t, d].z()) for ci in range(c) for t in range(n))
                used = set(str(x) for x in z3util_vars(impl.z()))
                u.holds(ctx, "R-hat of a parameter does not depend on the other parameters' values", used <= own, replay, inst)
    u.done()


def z3util_vars(e):
    seen = set()
    out = []
    stack = [e]
    while stack:
        t = stack.pop()
        if t.get_id() in seen:
            continue
        seen.add(t.get_id())
        if z3.is_const(t) and t.decl().kind() == z3.Z3_OP_UNINTERPRETED:
            out.append(t)
        else:
            stack.extend(t.children())
    return out


def float_rhat(data, c, n, p, d, biased):
    halves = []
    for ci in range(c):
        col = [data[(ci * n + t) * p + d] for t in range(n)]
        halves += split_halves(col)
    w, vp = spec_rhat_from_chains(halves, biased)
    if w <= 0:
        return float("nan")
    return (vp / w) ** 0.5


def replay_split_rhat(model, xs, c, n, p, d):
    cands = [[fnum(zval(model, x.z())) for x in xs]]
    import random
    rnd = random.Random(7)
    for _ in range(4):
        cands.append([round(rnd.uniform(-3, 3), 2) + (5.0 * (i // (n * p)) if _ % 2 else 0.0) for i in range(len(xs))])
    tried = []
    for data in cands:
        data = [float(np.float32(v)) for v in data]
        case = {"case": "split_rhat_ess", "shape": [c, n, p], "data": data}
        nat = native(case)
        specs = [float_rhat(data, c, n, p, d, True)]
        if n // 2 > 1:
            specs.append(float_rhat(data, c, n, p, d, False))
        ok_profiles = []
        for prof, res in nat.items():
            got = res.get("rhat", [None] * p)[d] if isinstance(res, dict) else None
            if isinstance(got, str):
                got = float(got.replace("NaN", "nan"))
            if got is None or any(s != s for s in specs):
                continue
            if not any(approx_eq(got, s, 1e-3, 1e-4) for s in specs):
                ok_profiles.append(prof)
        tried.append({"case": case, "native": nat, "spec_rhat(biased W, unbiased W)": specs})
        if ok_profiles:
            return True, {"case": case, "native": nat, "spec_rhat(biased W, unbiased W)": specs,
                          "reproduced_in": ok_profiles}
    return False, {"tried": tried[:2]}


# ------------------------------------------------------------------------------------------------
# C13: trackers
# ------------------------------------------------------------------------------------------------
def struct(eng, name, **kw):
    order = eng.src_index["structs"][name]
    return Struct(name, order, [kw[k] for k in order])


def c13_trackers(out, tier, seed):
    eng = mir_load.load_engine()
    configs = [(2, 1, 2), (2, 2, 2), (3, 2, 3)]
    if tier == "thorough":
        configs += [(3, 3, 3), (2, 3, 4), (4, 2, 2)]
    u = MUnit(out, "C13", "c13_trackers", eng,
              functions=["stats::ChainTracker::{new, step, stats}", "stats::MultiChainTracker::{new, step, rhat, within_and_var}",
                         "stats::collect_rhat", "stats::withinvar_from_cs"],
              bounds=["(chains, params, updates) in %s; every state entry an arbitrary real" % (configs,)],
              assumptions=R_ASSUME + ["W > 0 assumed"],
              out_of_scope=["f32 cancellation error of the mean-of-squares formula", "longer update sequences "
                            "(the per-update recurrence is uniform; the sizes above are executed completely)"])
    for (m, p, k) in configs:
        def run(ctx, m=m, p=p, k=k):
            init = [[ctx.fresh_real("init") for _ in range(p)] for _ in range(m)]
            steps = [[[ctx.fresh_real("x") for _ in range(p)] for _ in range(m)] for _ in range(k)]
            singles = []
            phist = []
            for c in range(m):
                tr = eng.call_fn(eng.find_fn("ChainTracker::new"), [p, Ref.to(RVec(list(init[c])))])
                cell = Ref.to(tr)
                hist = []
                for t in range(k):
                    r = eng.call_fn(eng.find_fn("ChainTracker::step"), [cell, Ref.to(RVec(list(steps[t][c])))])
                    if r.variant != "Ok":
                        raise PanicPath("ChainTracker::step returned Err")
                    hist.append(eng.call_fn(eng.find_fn("ChainTracker::stats"), [cell]).get("p_accept"))
                phist.append(hist)
                singles.append(cell)
            stats = [eng.call_fn(eng.find_fn("ChainTracker::stats"), [s]) for s in singles]
            cr = eng.call_fn("collect_rhat", [Ref.to(RVec([Ref.to(s) for s in stats]))])
            multi = Ref.to(eng.call_fn(eng.find_fn("MultiChainTracker::new"), [m, p]))
            mhist = []
            for t in range(k):
                flat = [x for c in range(m) for x in steps[t][c]]
                r = eng.call_fn(eng.find_fn("MultiChainTracker::step"), [multi, Ref.to(RVec(flat))])
                if r.variant != "Ok":
                    raise PanicPath("MultiChainTracker::step returned Err")
                mhist.append(multi.get().get("p_accept"))
            phist.append(mhist)
            mr = eng.call_fn(eng.find_fn("MultiChainTracker::rhat"), [multi])
            return init, steps, stats, cr, mr, phist
        for ctx, res in eng.explore(run):
            u.paths += 1
            if isinstance(res, Exception):
                out.inconclusive.append("c13_trackers %s: %r" % ((m, p, k), res))
                continue
            init, steps, stats, cr, mr, phist = res
            inst = "chains=%d params=%d updates=%d" % (m, p, k)

            def replay(model, m=m, p=p, k=k, init=init, steps=steps, which="collect_rhat"):
                return replay_trackers(model, init, steps, m, p, k, which)
            for c in range(m):
                st = stats[c]
                u.holds(ctx, "tracker count equals the number of updates", st.get("n") == k, lambda mo: replay(mo, which="n"), inst)
                # acceptance rate: EMA (weight ALPHA = the f32 nearest 0.01) of 'state differs from previous state'
                prev = init[c]
                for t in range(k):
                    cur = steps[t][c]
                    moved = z3.Or([cur[d].z() != prev[d].z() for d in range(p)])
                    pa = Num.of(phist[c][t])
                    rp = lambda mo, w="p_accept": replay(mo, which=w)  # noqa: E731
                    u.holds(ctx, "the acceptance rate lies in [0,1]", z3.And(pa.z() >= 0, pa.z() <= 1), rp, inst)
                    if t == 0:
                        u.holds(ctx, "first update: acceptance rate 0 without a move, positive with one",
                                z3.And(z3.Implies(z3.Not(moved), pa.z() == 0), z3.Implies(moved, pa.z() > 0)), rp, inst)
                    else:
                        ind = z3.If(moved, z3.RealVal(1), z3.RealVal(0))
                        want = (Num(1) - ALPHA_F32) * Num.of(phist[c][t - 1]) + ALPHA_F32 * Num(ind)
                        u.holds(ctx, "acceptance rate is the exponential moving average (weight 0.01) of the move indicator",
                                pa.z() == want.z(), rp, inst)
                    prev = cur
                for d in range(p):
                    xs = [steps[t][c][d] for t in range(k)]
                    mu = mean(xs)
                    ss = None
                    for x in xs:
                        dd = (x - mu) * (x - mu)
                        ss = dd if ss is None else ss + dd
                    u.equal(ctx, "tracker mean equals the mean of the states it was fed", st.get("mean").a[d], mu,
                            lambda mo, w="mean": replay(mo, which=w), inst)
                    u.equal(ctx, "tracker variance equals the unbiased sample variance of the states it was fed",
                            st.get("sm2").a[d], ss / (k - 1), lambda mo, w="sm2": replay(mo, which=w), inst)
            # multi-chain acceptance rate: one EMA update per chain row and update, from 0, comparing with the previous
            # update's row (all-zero before the first update)
            mh = phist[m]
            pm = Num(0)
            for t in range(k):
                for c in range(m):
                    prev = steps[t - 1][c] if t > 0 else [Num(0)] * p
                    moved = z3.Or([steps[t][c][d].z() != Num.of(prev[d]).z() for d in range(p)])
                    pm = (Num(1) - ALPHA_F32) * pm + ALPHA_F32 * Num(z3.If(moved, z3.RealVal(1), z3.RealVal(0)))
                u.holds(ctx, "multi-chain acceptance rate: one EMA update (weight 0.01) per chain row, always in [0,1]",
                        z3.And(Num.of(mh[t]).z() == pm.z(), Num.of(mh[t]).z() >= 0, Num.of(mh[t]).z() <= 1),
                        lambda mo, w="multi_p_accept": replay(mo, which=w), inst)
            if mr.variant != "Ok":
                out.inconclusive.append("c13_trackers: MultiChainTracker::rhat returned Err")
                continue
            mra = mr.fields[0].a
            for d in range(p):
                chains = [[steps[t][c][d] for t in range(k)] for c in range(m)]
                w_s, vp_s = spec_rhat_from_chains(chains, False)
                ax = [w_s.z() > 0]
                u.holds(ctx, "progress R-hat derived from per-chain trackers equals the classical sqrt(var+/W) of the draws",
                        cr.a[d].z() == sqrt(vp_s / w_s).z(), lambda mo, w="collect_rhat": replay(mo, which=w), inst, ax)
                u.holds(ctx, "multi-chain tracker R-hat equals the classical sqrt(var+/W) of the draws",
                        mra[d].z() == sqrt(vp_s / w_s).z(), lambda mo, w="multi_rhat": replay(mo, which=w), inst, ax)
    u.done()


def replay_trackers(model, init, steps, m, p, k, which):
    import random
    rnd = random.Random(11)
    cands = []
    if model is not None:
        cands.append(([fnum(zval(model, x.z())) for c in init for x in c],
                      [[fnum(zval(model, x.z())) for c in st for x in c] for st in steps]))
    for j in range(4):
        cands.append(([0.0] * (m * p), [[round(rnd.uniform(-2, 2), 2) + 3.0 * ci for ci in range(m) for _ in range(p)]
                                        for _ in range(k)]))
    for j in range(3):  # small-scale parameters (an absolute fudge term in a ratio of variances shows only here)
        sc = [1e-3, 2.0 ** -12, 1e-2][j]
        cands.append(([0.0] * (m * p), [[sc * (round(rnd.uniform(-2, 2), 2) + 1.5 * ci) for ci in range(m) for _ in range(p)]
                                        for _ in range(k)]))
    if which in ("p_accept", "multi_p_accept"):  # repeats of the initial state followed by moves, and moves followed by repeats
        base = [1.0 + i for i in range(m * p)]
        cands.append((base, [list(base) for _ in range(k - 1)] + [[v + 1.0 for v in base]]))
        cands.append((base, [[v + 1.0 for v in base]] + [[v + 1.0 for v in base] for _ in range(k - 1)]))
        cands.append((base, [list(base)] + [[v + 1.0 + t for v in base] for t in range(k - 1)]))
    tried = []
    for ini, sts in cands:
        ini = [float(np.float32(v)) for v in ini]
        sts = [[float(np.float32(v)) for v in s] for s in sts]
        case = {"case": "trackers", "n_chains": m, "n_params": p, "init": ini, "steps": sts}
        nat = native(case)
        bad = []
        spec = {}
        for prof, res in nat.items():
            if not isinstance(res, dict) or "chains" not in res:
                continue
            if which == "n":
                if any(ch.get("n") != k for ch in res["chains"]):
                    bad.append(prof)
                continue
            for d in range(p):
                chains = [[sts[t][c * p + d] for t in range(k)] for c in range(m)]
                w_s, vp_s = spec_rhat_from_chains(chains, False)
                if w_s <= 1e-9:
                    continue
                rh = (vp_s / w_s) ** 0.5
                spec["rhat[%d]" % d] = rh
                if which == "multi_p_accept":
                    al = float(np.float32(0.01))
                    pm = 0.0
                    for t in range(k):
                        for c in range(m):
                            prev = sts[t - 1][c * p:(c + 1) * p] if t > 0 else [0.0] * p
                            cur = sts[t][c * p:(c + 1) * p]
                            pm = (1 - al) * pm + al * (1.0 if any(a != b for a, b in zip(cur, prev)) else 0.0)
                    got = res.get("multi_p_accept")
                    got = float(got.replace("NaN", "nan")) if isinstance(got, str) else got
                    if got is None or not approx_eq(got, pm, 1e-5, 1e-6) or not (0 <= got <= 1):
                        bad.append(prof)
                    continue
                if which == "p_accept":
                    continue
                if which in ("collect_rhat", "multi_rhat"):
                    got = res[which][d]
                    got = float(got.replace("NaN", "nan")) if isinstance(got, str) else got
                    if got == got and not approx_eq(got, rh, 2e-3, 1e-4):
                        bad.append(prof)
                else:
                    for c in range(m):
                        xs = chains[c]
                        mu = sum(xs) / k
                        var = sum((x - mu) ** 2 for x in xs) / (k - 1)
                        got = res["chains"][c][which][d]
                        got = float(got.replace("NaN", "nan")) if isinstance(got, str) else got
                        want = mu if which == "mean" else var
                        if got == got and not approx_eq(got, want, 2e-3, 1e-3):
                            bad.append(prof)
        if which == "p_accept":
            al = float(np.float32(0.01))
            for prof, res in nat.items():
                if not isinstance(res, dict) or "p_hist" not in res:
                    continue
                for c in range(m):
                    prev = ini[c * p:(c + 1) * p]
                    for t in range(k):
                        cur = sts[t][c * p:(c + 1) * p]
                        moved = any(a != b for a, b in zip(cur, prev))
                        got = res["p_hist"][c][t]
                        if not (0.0 <= got <= 1.0):
                            bad.append(prof)
                        if t == 0:
                            if (not moved and got != 0.0) or (moved and not got > 0.0):
                                bad.append(prof)
                        else:
                            want = (1 - al) * res["p_hist"][c][t - 1] + al * (1.0 if moved else 0.0)
                            if not approx_eq(got, want, 1e-5, 1e-6):
                                bad.append(prof)
                        prev = cur
        tried.append({"case": case, "native": nat, "spec": spec})
        if bad:
            return True, {"case": case, "native": nat, "spec": spec, "which": which, "reproduced_in": sorted(set(bad))}
    return False, {"tried": tried[:2], "which": which}


# ------------------------------------------------------------------------------------------------
# C12: ESS with Geyer's initial monotone sequence
# ------------------------------------------------------------------------------------------------
def spec_autocov(xs):
    n = len(xs)
    mu = mean(xs)
    c = [x - mu for x in xs]
    out = []
    for lag in range(n):
        s = None
        for t in range(n - lag):
            term = c[t] * c[t + lag]
            s = term if s is None else s + term
        out.append(s / n)
    return out


def decide(eng, ctx, cond):
    """truth value of cond under the path condition: True / False / None (not determined)"""
    if isinstance(cond, bool):
        return cond
    r1, _ = eng.check_unsat(ctx, z3.Not(cond), 20000)
    if r1 == "unsat":
        return True
    r2, _ = eng.check_unsat(ctx, cond, 20000)
    if r2 == "unsat":
        return False
    return None


def c12_autocov_bf(out, tier, seed):
    """autocov_bf on its own (no branching): every column's autocovariance is that column's, for more columns than any
    ESS configuration explores (the Geyer loop forks per parameter)."""
    eng = mir_load.load_engine()
    sizes = [(3, 6), (2, 9)] + ([(4, 5), (3, 13), (1, 3)] if tier == "thorough" else [])
    u = MUnit(out, "C12", "c12_autocov_bf", eng, functions=["stats::autocov_bf (+ closure)"],
              bounds=["(draws, parameters) in %s; every entry an arbitrary real" % (sizes,)],
              assumptions=R_ASSUME + ["rayon's for_each over axis iterators visits every item once (its contract)"],
              out_of_scope=["the FFT path", "f32 rounding"])
    mirsym.MUL_MODE["mode"] = "uf"
    try:
        for (n, p) in sizes:
            def run(ctx, n=n, p=p):
                xs = [ctx.fresh_real("x") for _ in range(n * p)]
                r = eng.call_fn("autocov_bf", [ND(obj_array(xs, (n, p)))])
                return xs, r
            for ctx, res in eng.explore(run, max_paths=20):
                u.paths += 1
                if isinstance(res, Exception):
                    out.inconclusive.append("c12_autocov_bf %s: %r" % ((n, p), res))
                    continue
                xs, r = res
                arr = np.array(xs, dtype=object).reshape(n, p)
                inst = "draws=%d params=%d" % (n, p)
                ok = tuple(r.a.shape) == (n, p)
                def rp(model, n=n, p=p):
                    last = (False, {})
                    for d in range(p - 1, -1, -1):  # ESS through the public API on the brute-force path, parameter by parameter
                        last = replay_ess_factory(2, max(2 * n, 8), p, d, None)(model)
                        if last[0]:
                            return last
                    return last
                u.holds(ctx, "autocovariance table has one row per lag and one column per parameter", ok, rp, inst)
                if not ok:
                    continue
                for d in range(p):
                    spec = spec_autocov([arr[t, d] for t in range(n)])
                    for lag in range(n):
                        u.equal(ctx, "autocovariance of parameter d at lag t is sum_s (x_s - mean)(x_{s+t} - mean) / n of that parameter's own draws",
                                r.a[lag, d], spec[lag], rp, inst)
    finally:
        mirsym.MUL_MODE["mode"] = "exact"
    u.done()


def c12_ess(out, tier, seed):
    eng = mir_load.load_engine()
    configs = [(2, 4, 1), (2, 6, 1)]
    if tier == "thorough":
        configs += [(2, 5, 1), (3, 4, 2), (2, 8, 1), (1, 7, 1)]
    u = MUnit(out, "C12", "c12_ess", eng,
              functions=["stats::ess (+ closures)", "stats::autocov (algorithm switch)", "stats::autocov_bf (+ closure)"],
              bounds=["(half-chains, draws per half-chain, params) in %s; every entry an arbitrary real; W, var+ arbitrary "
                      "positive reals per parameter; the Geyer loop is explored over every sign pattern of the pair sums" % (configs,)],
              assumptions=R_ASSUME + ["var+ > 0"],
              out_of_scope=["the FFT autocovariance path (rustfft planner / SIMD kernels are not encodable): 'identical whichever "
                            "path' is decided only up to the selection rule n <= 100", "asymptotic statements (i.i.d., AR(1))",
                            "affine / permutation / time-reversal invariance (lemmas about the specification formula)"])
    mirsym.MUL_MODE["mode"] = "uf"  # products / quotients of two symbolic reals abstracted (same shape in code and oracle)
    for (m, n, p) in configs:
        def run(ctx, m=m, n=n, p=p):
            xs = [ctx.fresh_real("x") for _ in range(m * n * p)]
            w = [ctx.fresh_real("W") for _ in range(p)]
            v = [ctx.fresh_real("V") for _ in range(p)]
            for a in v:
                ctx.assume(a.z() > 0)
            sample = ND(obj_array(xs, (m, n, p)))
            r = eng.call_fn("ess", [sample, ND(obj_array(list(w), (p,))), ND(obj_array(list(v), (p,)))])
            return xs, w, v, r
        for ctx, res in eng.explore(run, max_paths=3000):
            u.paths += 1
            if isinstance(res, Exception):
                out.inconclusive.append("c12_ess %s: %r" % ((m, n, p), res))
                continue
            xs, w, v, r = res
            arr = np.array(xs, dtype=object).reshape(m, n, p)
            inst = "half-chains=%d draws=%d params=%d" % (m, n, p)
            for d in range(p):
                acov = [spec_autocov([arr[c, t, d] for t in range(n)]) for c in range(m)]
                rho = []
                for t in range(n):
                    avg = mean([acov[c][t] for c in range(m)])
                    rho.append(Num(1) - (w[d] - avg) / v[d])
                # Geyer's initial positive, monotone sequence over pairs (0,1), (2,3), ...; which pairs are positive /
                # clamped is read off the path condition (the implementation branches on exactly these comparisons)
                # the oracle's own case analysis: a comparison the implementation's path condition already decides is
                # followed, one it leaves open (e.g. a pair sum of exactly 0 under an equivalent `<` / `<=` cut) forks the
                # oracle, and the equality is then demanded under the fork's extra assumptions
                def geyer(k, prev, total, extra):
                    if k >= n - 1:
                        yield total, extra
                        return
                    pt = rho[k] + rho[k + 1]
                    for pos in (True, False):
                        c1 = pt.gt(0) if pos else z3.Not(pt.gt(0))
                        ex1 = extra + [c1]
                        if eng.check_unsat(ctx, z3.And(ex1), 20000)[0] == "unsat":
                            continue
                        if not pos:
                            yield total, ex1
                            continue
                        for over in (True, False):
                            c2 = pt.gt(prev) if over else z3.Not(pt.gt(prev))
                            ex2 = ex1 + [c2]
                            if eng.check_unsat(ctx, z3.And(ex2), 20000)[0] == "unsat":
                                continue
                            q = prev if over else pt
                            for res_ in geyer(k + 2, q, total + q, ex2):
                                yield res_
                first = (rho[0] + rho[1]) if n >= 2 else Num(0)
                for total, extra in geyer(0, first, Num(0), []):
                    tau = Num(-1) + total * 2
                    want = (Num(1) / tau) * (m * n)
                    ax_t = [tau.z() != 0] + extra
                    if tau.concrete and tau.v != 0:
                        # the implementation's tau is a term that only *equals* this constant on the fork: tie the abstracted
                        # reciprocal to its value there
                        ax_t.append(mirsym._INV(mirsym.zreal(tau.v)) == mirsym.zreal(1 / tau.v))
                    u.equal(ctx, "ESS = (half-chains x length) / tau with tau = -1 + 2 * sum of Geyer's positive, monotone pair sums of "
                            "rho_t = 1 - (W - mean autocovariance_t)/var+", r.a[d], want, replay_ess_factory(m, n, p, d, xs), inst, ax_t)
    mirsym.MUL_MODE["mode"] = "exact"
    # algorithm selection rule
    marks = []
    eng.override(r"^autocov_bf$", lambda e, c, a: (marks.append("bf"), ND(obj_array([Num(0)], (1, 1))))[1])
    eng.override(r"^autocov_fft$", lambda e, c, a: (marks.append("fft"), ND(obj_array([Num(0)], (1, 1))))[1])
    for rows, want in ((1, "bf"), (100, "bf"), (101, "fft"), (4096, "fft")):
        def run2(ctx, rows=rows):
            del marks[:]
            eng.call_fn("autocov", [ND(np.zeros((rows, 1), dtype=object))])
            return list(marks)
        for ctx, res in eng.explore(run2):
            u.paths += 1
            u.holds(ctx, "brute-force autocovariance is selected iff a half-chain has at most 100 draws", res == [want], None, "rows=%d" % rows)
    u.done()


# ------------------------------------------------------------------------------------------------
# C11: the summary's comparator must be a total preorder (std's sort may panic otherwise)
# ------------------------------------------------------------------------------------------------
def c11_comparator(out, tier, seed):
    eng = mir_load.load_engine()
    u = MUnit(out, "C11", "c11_comparator", eng, functions=["stats::basic_stats::{closure#0} (the sort_by comparator)"],
              bounds=["three arbitrary f32 values, each possibly NaN (N-mode)"],
              assumptions=["N-mode: reals plus a NaN flag with IEEE comparison semantics; partial_cmp is None iff an operand is NaN",
                           "std's sort_by may panic ('user-provided comparison function does not correctly implement a total order') "
                           "or misorder when the comparator is not a strict weak order; for <= 20 elements it uses insertion sort "
                           "and does not detect it"],
              out_of_scope=["-0.0 vs +0.0 and infinities (not represented in N-mode)"])
    fn = None
    for name in eng.dump.names():
        if name.startswith("basic_stats::{closure#"):
            fn = name
            break
    if fn is None:
        u.holds(None, "comparator closure present", False)
        u.done()
        return

    def cmp_code(ctx, a, b):
        clo = mirsym.Closure("cmp", [], [])
        r = eng.call_fn(fn, [Ref.to(clo), Ref.to(a), Ref.to(b)])
        return {"Less": -1, "Equal": 0, "Greater": 1}[r.variant]

    def run(ctx):
        vals = []
        for i in range(3):
            vals.append(Num(z3.Real("v%d" % i), z3.Bool("v%d_nan" % i)))
        a, b, c = vals
        return vals, cmp_code(ctx, a, b), cmp_code(ctx, b, c), cmp_code(ctx, a, c), cmp_code(ctx, b, a), cmp_code(ctx, a, a)
    n = 0
    for ctx, res in eng.explore(run, max_paths=5000):
        u.paths += 1
        n += 1
        if isinstance(res, Exception):
            out.inconclusive.append("c11_comparator: %r" % (res,))
            continue
        vals, ab, bc, ac, ba, aa = res

        def replay(model):
            return replay_comparator()
        u.holds(ctx, "summary comparator is reflexive: cmp(a,a) = Equal", aa == 0, replay)
        u.holds(ctx, "summary comparator is antisymmetric: cmp(a,b) = -cmp(b,a)", ab == -ba, replay)
        trans = not (ab <= 0 and bc <= 0 and ac > 0) and not (ab >= 0 and bc >= 0 and ac < 0)
        u.holds(ctx, "summary comparator is transitive, including transitivity of 'Equal' (a total preorder even with NaN)",
                trans and not (ab == 0 and bc == 0 and ac != 0), replay)
    u.reached("comparator outcome combinations", n)
    u.done()


def replay_comparator():
    """> 20 elements with NaNs interleaved: std's sort takes the path that detects an inconsistent order."""
    import random
    rnd = random.Random(5)
    tried = []
    for k in range(12):
        nvals = rnd.choice([21, 33, 64, 100])
        data = []
        for i in range(nvals):
            data.append("NaN" if rnd.random() < 0.3 else round(rnd.uniform(-5, 5), 3))
        case = {"case": "basic_stats", "data": data}  # "NaN" strings are read as NaN by mreplay
        nat = native(case)
        bad = []
        for prof, r in nat.items():
            if isinstance(r, dict) and r.get("panic"):
                bad.append(prof)
            elif isinstance(r, dict) and "min" in r:
                fin = [x for x in data if x != "NaN"]
                mn, mx = r["min"], r["max"]
                # a misordered result: reported extremes that are neither NaN nor the true extremes
                if isinstance(mn, float) and isinstance(mx, float) and (mn != min(fin) or mx != max(fin)):
                    bad.append(prof)
        tried.append({"n": nvals, "native": {p: (r if not isinstance(r, dict) else {k2: r[k2] for k2 in list(r)[:6]}) for p, r in nat.items()}})
        if bad:
            return True, {"case": {"case": "basic_stats", "data": data}, "native": nat, "reproduced_in": bad,
                          "what": "sort with the non-transitive comparator panics or misorders the finite values"}
    return False, {"tried": tried[:3]}


# ------------------------------------------------------------------------------------------------
# C16 (normalisation in `new`, which Kani's float division cannot decide)
# ------------------------------------------------------------------------------------------------
def replay_cat_new(model=None):
    import random
    rnd = random.Random(3)
    tried = []
    for w in ([0.1, 0.1, 0.2], [0.25, 0.0, 0.25], [0.5], [1.0, 2.0, 5.0], [0.0, 3.0], [rnd.uniform(0, 0.3) for _ in range(4)]):
        case = {"case": "categorical_new", "weights": w}
        nat = native(case)
        s = sum(w)
        bad = []
        for prof, r in nat.items():
            if isinstance(r, dict) and "probs" in r:
                pr = [float(str(x).replace("NaN", "nan")) for x in r["probs"]]
                if len(pr) != len(w) or any(not approx_eq(p, x / s, 1e-12, 1e-12) for p, x in zip(pr, w)) or not approx_eq(sum(pr), 1.0, 1e-9, 1e-9):
                    bad.append(prof)
            elif isinstance(r, dict) and r.get("panic"):
                bad.append(prof)
        tried.append({"case": case, "native": nat})
        if bad:
            return True, {"case": case, "native": nat, "reproduced_in": bad}
    return False, {"tried": tried[:2]}


def c16_new(out, tier, seed):
    eng = mir_load.load_engine()
    lens = [1, 2, 3, 4] if tier == "quick" else [1, 2, 3, 4, 6, 8]
    u = MUnit(out, "C16", "c16_new", eng, functions=["Categorical::<T>::new (+ closures)"],
              bounds=["len in %s; weights arbitrary non-negative reals with positive sum" % lens],
              assumptions=R_ASSUME[:1] + ["SmallRng::from_os_rng is opaque"],
              out_of_scope=["f32/f64 rounding of the normalised probabilities (their sum is 1 up to len*ulp)"])
    new = eng.find_fn("Categorical::new")
    for n in lens:
        def run(ctx, n=n):
            w = [ctx.fresh_real("w") for _ in range(n)]
            for x in w:
                ctx.assume(x.z() >= 0)
            s = w[0]
            for x in w[1:]:
                s = s + x
            ctx.assume(s.z() > 0)
            c = eng.call_fn(new, [RVec(list(w))])
            return w, s, c
        for ctx, res in eng.explore(run):
            u.paths += 1
            if isinstance(res, Exception):
                out.inconclusive.append("c16_new len=%d: %r" % (n, res))
                continue
            w, s, c = res
            probs = c.get("probs")
            ok = isinstance(probs, RVec) and len(probs.items) == n
            u.holds(ctx, "new stores one probability per weight", ok, replay_cat_new, "len=%d" % n)
            if not ok:
                continue
            tot = None
            for i in range(n):
                u.equal(ctx, "stored probability equals weight / sum of weights", probs.items[i], w[i] / s, replay_cat_new, "len=%d" % n)
                tot = probs.items[i] if tot is None else tot + probs.items[i]
            u.equal(ctx, "stored probabilities sum to one", tot, Num(1), replay_cat_new, "len=%d" % n)
    u.done()



def float_ess(data, m, n, p, d):
    """float evaluation of the same specification, from the raw (already split) half-chains"""
    chains = [[data[(c * n + t) * p + d] for t in range(n)] for c in range(m)]
    w, vp = spec_rhat_from_chains(chains, True)
    acov = [spec_autocov(c) for c in chains]
    rho = [1 - (w - sum(acov[c][t] for c in range(m)) / m) / vp for t in range(n)]
    total, prev = 0.0, (rho[0] + rho[1]) if n >= 2 else 0.0
    for k in range(0, n - 1, 2):
        pt = rho[k] + rho[k + 1]
        if pt <= 0:
            break
        pt = min(pt, prev)
        prev = pt
        total += pt
    tau = -1 + 2 * total
    return m * n / tau if tau != 0 else float("inf")


def replay_ess_factory(m, n, p, d, xs):
    def replay(model):
        # native: split_rhat_mean_ess on an array whose half-chains are exactly the explored ones (m/2 chains of 2n draws)
        import random
        rnd = random.Random(13)
        if m % 2:
            return False, {"note": "odd number of half-chains cannot be produced through the public API"}
        tried = []
        for k in range(10):
            # positively autocorrelated half-chains (AR(1)), long enough for several positive pair sums: the native run
            # need not have the size of the symbolic configuration, only exercise the same code
            nn = [n, 24, 40, 60, 30, 48, 36, 80, 20, 52][k]
            phi = [0.0, 0.6, 0.8, 0.9, 0.7, 0.85, 0.5, 0.9, 0.75, 0.8][k]
            halves = []
            for j in range(m):
                x, row = 0.0, []
                for _ in range(nn * p):
                    x = phi * x + rnd.gauss(0, 1)
                    row.append(round(x + (0.5 * j if k % 2 else 0), 3))
                if k in (1, 3, 4, 7):
                    # the same chains at a small scale (exact power of two): ESS is scale invariant, an absolute fudge term is not
                    row = [v * 2.0 ** -10 for v in row]
                halves.append(row)
            n_eff = nn
            c0 = m // 2
            data = []
            for c in range(c0):
                data += halves[c] + halves[c + c0]
            data = [float(np.float32(v)) for v in data]
            case = {"case": "split_rhat_ess", "shape": [c0, 2 * n_eff, p], "data": data}
            nat = native(case)
            flat = []
            for c in range(m):
                flat += [float(np.float32(v)) for v in halves[c]]
            want = float_ess(flat, m, n_eff, p, d)
            bad = []
            for prof, res in nat.items():
                got = res.get("ess", [None] * p)[d] if isinstance(res, dict) else None
                if isinstance(got, str):
                    got = float(got.replace("NaN", "nan"))
                if got is not None and got == got and abs(want) != float("inf") and not approx_eq(got, want, 5e-3, 1e-2):
                    bad.append(prof)
            tried.append({"case": case, "native": nat, "spec_ess": want})
            if bad:
                return True, {"case": case, "native": nat, "spec_ess": want, "reproduced_in": bad}
        return False, {"tried": tried[:2]}
    return replay


# ------------------------------------------------------------------------------------------------
# C11: run summary (basic_stats) over the reals: min / max / median / mean / std of the finite values
# ------------------------------------------------------------------------------------------------
def replay_summary(model, xs):
    """real basic_stats on the model's values and on a few fixed data sets, against min / max / mean / ddof-1 std and the
    middle-order-statistic median"""
    n = len(xs)
    cands = []
    try:
        cands.append([fnum(zval(model, x.z())) for x in xs])
    except Exception:
        pass
    rnd = random.Random(11)
    cands += [[round(rnd.uniform(-5, 5), 3) for _ in range(n)] for _ in range(2)]
    cands += [[3.0, 1.0, 2.0, 5.0, 4.0, 0.5, 7.25][:max(n, 1)], [2.0, 9.0, 4.0, 4.0, 1.0, 6.0]]
    tried = []
    for data in cands:
        d32 = [float(np.float32(v)) for v in data]
        if not d32:
            continue
        case = {"case": "basic_stats", "data": d32}
        nat = native(case)
        m = sum(d32) / len(d32)
        sd = math.sqrt(sum((v - m) ** 2 for v in d32) / (len(d32) - 1)) if len(d32) > 1 else None
        srt = sorted(d32)
        bad = []
        for prof, r in nat.items():
            if not isinstance(r, dict) or "min" not in r:
                if isinstance(r, dict) and r.get("panic"):
                    bad.append(prof)
                continue
            try:
                g = {k: float(r[k]) for k in ("min", "max", "median", "mean", "std")}
            except (TypeError, ValueError):
                g = None
            ok = g is not None and g["min"] == srt[0] and g["max"] == srt[-1] and approx_eq(g["mean"], m, 1e-5, 1e-6)
            if ok and sd is not None:
                ok = approx_eq(g["std"], sd, 1e-4, 1e-6)
            if ok:
                le = sum(1 for v in d32 if v <= g["median"])
                ge = sum(1 for v in d32 if v >= g["median"])
                ok = g["median"] in d32 and le >= (len(d32) + 1) // 2 and ge >= len(d32) // 2
            if not ok:
                bad.append(prof)
        tried.append({"case": case, "native": nat})
        if bad:
            return True, {"case": case, "native": nat, "reproduced_in": bad}
    return False, {"tried": tried[:2]}


def c11_summary(out, tier, seed):
    eng = mir_load.load_engine()
    sizes = [1, 3, 4] if tier == "quick" else [1, 2, 3, 4, 5]
    u = MUnit(out, "C11", "c11_summary", eng, functions=["stats::basic_stats (+ comparator closure)"],
              bounds=["%s finite values, every ordering of them a path" % sizes],
              assumptions=R_ASSUME + ["sort_by is a stable comparison sort driven by the given comparator (modelled as insertion sort "
                                      "calling the real comparator closure)"],
              out_of_scope=["f32 rounding of mean/std", "non-finite values (comparator totality is a separate unit)"])

    def sort_by(e, callee, args):
        sl = args[0]
        while isinstance(sl, Ref):
            sl = sl.get()
        items = sl.items
        for i in range(1, len(items)):
            j = i
            while j > 0:
                r = e.call_closure(args[1], [Ref(items, j - 1), Ref(items, j)])
                if r.variant == "Greater":
                    items[j - 1], items[j] = items[j], items[j - 1]
                    j -= 1
                else:
                    break
        return Tuple([])

    class SliceOf:
        pass
    # as_slice_mut must alias the array: sort in a Vec, write back afterwards
    backing = {}

    def as_slice_mut(e, callee, args):
        a = args[0]
        while isinstance(a, Ref):
            a = a.get()
        v = RVec(list(a.a.reshape(-1)))
        backing["arr"], backing["vec"] = a, v
        return mirsym.Some(Ref.to(v))
    eng.override(r"impl_methods::<impl ArrayBase<.*>>::as_slice_mut$", as_slice_mut)

    def sort_and_write_back(e, callee, args):
        r = sort_by(e, callee, args)
        arr, v = backing["arr"], backing["vec"]
        for i, x in enumerate(v.items):
            arr.a.reshape(-1)[i] = x
        return r
    eng.override(r"^std::slice::<impl \[f32\]>::sort_by::<|^core::slice::<impl \[f32\]>::sort_by::<", sort_and_write_back)
    for n in sizes:
        def run(ctx, n=n):
            xs = [ctx.fresh_real("v") for _ in range(n)]
            st = eng.call_fn("basic_stats", [Opaque("name"), ND(obj_array(list(xs), (n,)))])
            return xs, st
        for ctx, res in eng.explore(run, max_paths=2000):
            u.paths += 1
            if isinstance(res, Exception):
                out.inconclusive.append("c11_summary n=%d: %r" % (n, res))
                continue
            xs, st = res
            inst = "%d values" % n
            zs = [x.z() for x in xs]

            def rp(model, xs=xs):
                return replay_summary(model, xs)
            mn, mx, med = st.get("min").z(), st.get("max").z(), st.get("median").z()
            u.holds(ctx, "summary min / max are the true minimum and maximum",
                    z3.And(z3.And([mn <= z for z in zs]), z3.Or([mn == z for z in zs]), z3.And([mx >= z for z in zs]), z3.Or([mx == z for z in zs])),
                    rp, inst)
            le = z3.Sum([z3.If(z <= med, 1, 0) for z in zs])
            ge = z3.Sum([z3.If(z >= med, 1, 0) for z in zs])
            u.holds(ctx, "summary median is a middle order statistic", z3.And(z3.Or([med == z for z in zs]), le >= (n + 1) // 2, ge >= n // 2, le + ge >= n + 1), rp, inst)
            mu = mean(xs)
            u.equal(ctx, "summary mean is the arithmetic mean", st.get("mean"), mu, rp, inst)
            if n >= 2:
                ss = None
                for x in xs:
                    dd = (x - mu) * (x - mu)
                    ss = dd if ss is None else ss + dd
                u.equal(ctx, "summary std is the sample standard deviation (ddof 1)", st.get("std"), sqrt(ss / (n - 1)), rp, inst)
    u.done()
