"""Engine K driver: runs Kani/CBMC harnesses of /verif/engines/kani against /repo's working tree,
parses the solver verdicts, and confirms counterexamples by native replay before reporting."""
import json
import os
import queue
import re
import resource
import shutil
import subprocess
import threading
import time

from common import CACHE, REPO, VERIF, Finding, env_offline, log, save_replay

KDIR = os.path.join(VERIF, "engines", "kani")
REPLAY_TARGET = os.path.join(CACHE, "replay-target")
MEM_LIMIT_BYTES = 24 * 1024 ** 3

RUSTC_PANICS = (
    "attempt to ",
    "index out of bounds",
    "arithmetic overflow",
    "assertion failed",
    "called `Option::unwrap()`",
    "called `Result::unwrap()`",
    "range end index",
    "range start index",
    "slice index",
    "Expect",
    "explicit panic",
)


def relevant(desc, prop):
    """Obligation labels may carry a property tag '(Cxx)' when a harness serves two properties."""
    m = re.search(r"\((C\d\d)\)$", desc.strip())
    return m is None or m.group(1) == prop


def slug(s):
    return re.sub(r"[^a-z0-9]+", "-", s.lower()).strip("-")[:80]


class KUnit:
    def __init__(self, name, timeout=900, robust=None, functions=(), bounds=(), stubs=(), extra_args=(), note="",
                 expect_covers=True):
        self.name = name
        self.timeout = timeout
        self.robust = robust
        self.functions = list(functions)
        self.bounds = list(bounds)
        self.stubs = list(stubs)
        self.extra_args = list(extra_args)
        self.note = note
        self.expect_covers = expect_covers


def prepare():
    """Per-run preparation: lock file copied from the repository (its dependency resolution)."""
    os.makedirs(CACHE, exist_ok=True)
    shutil.copyfile(os.path.join(REPO, "Cargo.lock"), os.path.join(KDIR, "Cargo.lock"))


def _limits():
    try:
        resource.setrlimit(resource.RLIMIT_AS, (MEM_LIMIT_BYTES, MEM_LIMIT_BYTES))
    except Exception:
        pass
    os.setsid()


# harnesses behind the harness crate's feature `gibbs` (struct literals of the repository's Gibbs types); when the crate
# does not compile against the current tree, every other harness is rebuilt and run without that feature
NO_GIBBS = {"on": False}


def is_gibbs_harness(harness):
    return harness.startswith("c05_") or "gibbs" in harness


def _kani_cmd(harness, slot, playback=False, extra=()):
    cmd = [
        "cargo", "kani", "--harness", "proofs::" + harness, "--exact", "-Z", "stubbing", "--features", "hooks",
        "--no-overflow-checks",
        "--target-dir", os.path.join(CACHE, "kani-target-%d" % slot),
    ]
    if NO_GIBBS["on"] and not is_gibbs_harness(harness):
        cmd.insert(2, "--no-default-features")
    if playback:
        cmd += ["-Z", "concrete-playback", "--concrete-playback=print"]
    cmd += list(extra)
    return cmd


CHECK_RE = re.compile(
    r"Check (\d+): ([^\n]+)\n\s+- Status: (\w+)\n\s+- Description: \"((?:[^\"\\]|\\.)*)\"\n\s+- Location: ([^\n]*)"
)


def parse_kani(text):
    checks = []
    for m in CHECK_RE.finditer(text):
        checks.append({"id": m.group(2), "status": m.group(3), "desc": m.group(4), "loc": m.group(5)})
    res = {
        "checks": checks,
        "successful": "VERIFICATION:- SUCCESSFUL" in text,
        "failed": "VERIFICATION:- FAILED" in text,
        "error_status": any(c["status"] == "ERROR" for c in checks) or "CBMC failed" in text or "Status: ERROR" in text,
        "time": None,
    }
    m = re.search(r"Verification Time: ([0-9.]+)s", text)
    if m:
        res["time"] = float(m.group(1))
    return res


PLAY_RE = re.compile(
    r"/// Check for `(\w+)`: \"((?:[^\"\\]|\\.)*)\".*?let concrete_vals: Vec<Vec<u8>> = vec!\[(.*?)\n    \];",
    re.S,
)


def parse_playback(text):
    out = []
    for m in PLAY_RE.finditer(text):
        vals = []
        for vm in re.finditer(r"vec!\[([0-9, ]*)\]", m.group(3)):
            s = vm.group(1).strip()
            vals.append([int(x) for x in s.split(",") if x.strip() != ""] if s else [])
        out.append({"kind": m.group(1), "desc": m.group(2), "vals": vals})
    return out


def run_kani(harness, slot, timeout, playback=False, nocover=False, extra=()):
    env = env_offline()
    if nocover:
        env["MMK_NOCOVER"] = "1"
    else:
        env.pop("MMK_NOCOVER", None)
    t0 = time.time()
    logf = os.path.join(CACHE, "logs", "%s%s.log" % (harness, ".playback" if playback else ""))
    os.makedirs(os.path.dirname(logf), exist_ok=True)
    with open(logf, "w") as fh:
        p = subprocess.Popen(_kani_cmd(harness, slot, playback, extra), cwd=KDIR, env=env, stdout=fh,
                             stderr=subprocess.STDOUT, preexec_fn=_limits)
        try:
            rc = p.wait(timeout=timeout)
            timed_out = False
        except subprocess.TimeoutExpired:
            timed_out = True
            try:
                os.killpg(p.pid, 9)
            except Exception:
                pass
            p.wait()
            rc = -9
    with open(logf, errors="replace") as fh:
        text = fh.read()
    if ("could not compile `mmk`" in text and not NO_GIBBS["on"] and not is_gibbs_harness(harness) and not timed_out
            and not os.environ.get("MMK_NO_FALLBACK")):
        # the harness crate does not compile against this tree: retry without the Gibbs struct-literal harnesses
        log("  [%s] harness crate does not compile with the `gibbs` harnesses; retrying without them" % harness)
        NO_GIBBS["on"] = True
        r = run_kani(harness, slot, timeout, playback, nocover, extra)
        if "could not compile `mmk`" in r["text"]:
            NO_GIBBS["on"] = False
        return r
    r = parse_kani(text)
    r.update({"rc": rc, "timed_out": timed_out, "wall": time.time() - t0, "log": logf, "text": text})
    return r


_replay_lock = threading.Lock()
_replay_built = {}


def build_replay(profile):
    """Native replay binary against /repo's working tree (hooks feature on)."""
    with _replay_lock:
        if profile in _replay_built:
            return _replay_built[profile]
        cmd = ["cargo", "build", "--offline", "--bin", "replay", "--features", "hooks", "--target-dir", REPLAY_TARGET]
        if profile == "release":
            cmd.append("--release")
        if NO_GIBBS["on"]:
            cmd.append("--no-default-features")
        p = subprocess.run(cmd, cwd=KDIR, env=env_offline(), stdout=subprocess.PIPE, stderr=subprocess.STDOUT, text=True)
        if p.returncode != 0 and not NO_GIBBS["on"]:
            p = subprocess.run(cmd + ["--no-default-features"], cwd=KDIR, env=env_offline(), stdout=subprocess.PIPE,
                               stderr=subprocess.STDOUT, text=True)
        ok = p.returncode == 0
        if not ok:
            log("replay build (%s) failed:\n%s" % (profile, p.stdout[-3000:]))
        path = os.path.join(REPLAY_TARGET, "release" if profile == "release" else "debug", "replay")
        _replay_built[profile] = path if ok else None
        return _replay_built[profile]


def native_replay(harness, path):
    """Run the harness body natively on the recorded values, in dev and release profile."""
    res = {}
    for profile in ("dev", "release"):
        exe = build_replay(profile)
        if exe is None:
            res[profile] = {"error": "replay build failed"}
            continue
        p = subprocess.run([exe, harness, path], stdout=subprocess.PIPE, stderr=subprocess.PIPE, text=True,
                           env=dict(os.environ, RUST_BACKTRACE="0"))
        line = p.stdout.strip().splitlines()[-1] if p.stdout.strip() else ""
        try:
            res[profile] = json.loads(line)
        except Exception:
            res[profile] = {"error": "no verdict", "rc": p.returncode, "stderr": p.stderr[-500:]}
    return res


def native_search(harness, tries=400000):
    exe = build_replay("dev")
    if exe is None:
        return None
    for seed in (1, 2, 3):
        p = subprocess.run([exe, harness, "--search", str(tries), str(seed)], stdout=subprocess.PIPE, stderr=subprocess.PIPE,
                           text=True, env=dict(os.environ, RUST_BACKTRACE="0"))
        line = p.stdout.strip().splitlines()[-1] if p.stdout.strip() else ""
        try:
            r = json.loads(line)
        except Exception:
            continue
        if r.get("found"):
            return r
    return None


def is_label(c, harness):
    """A harness-level labelled obligation (chk!/cov!), as opposed to a compiler-inserted check."""
    if not re.search(r"in function h_c\d+::", c["loc"]) and "proofs::" not in c["loc"]:
        return False
    d = c["desc"]
    if c["id"].split(".")[-2:-1] == ["cover"]:
        return True
    return not any(d.startswith(p) for p in RUSTC_PANICS)


def confirm(out, prop, unit, slot, failing_descs):
    """Counterexample -> concrete values -> native replay.  Returns list of Finding / adds inconclusive."""
    log("  [%s] counterexample candidate(s): %s -- looking for a concrete witness" % (unit.name, failing_descs))
    # cheap first: the harness body itself searches natively (boundary-biased inputs) for a witness of what the solver
    # has shown to exist; only if that fails is the (3-10x more expensive) trace extracted from CBMC
    found = native_search(unit.name, tries=200000)
    plays = []
    r = {"log": "(native search)"}
    if found and any(relevant(f, prop) for f in found.get("failed", [])):
        lab = [f for f in found["failed"] if relevant(f, prop)][0]
        desc = lab if lab != "panic" else ([d for d in failing_descs if any(d.startswith(p) for p in RUSTC_PANICS)] or failing_descs)[0]
        plays = [{"kind": "assertion", "desc": desc, "vals": found["vals"]}]
        log("  [%s] witness found natively after %d tries" % (unit.name, found.get("tries", -1)))
    else:
        r = run_kani(unit.name, slot, max(unit.timeout * 4, 1800), playback=True, nocover=True, extra=unit.extra_args)
        plays = [p for p in parse_playback(r["text"]) if p["kind"] != "cover" and relevant(p["desc"], prop)
                 and "unwinding assertion" not in p["desc"]]
    if not plays:
        out.inconclusive.append("%s: solver reported a failing obligation %s but no concrete witness could be obtained "
                                "(native search and trace extraction both failed; log %s)" % (unit.name, failing_descs, r["log"]))
        return
    seen = set()
    for pl in plays:
        if pl["desc"] in seen:
            continue
        seen.add(pl["desc"])
        key = "%s/%s" % (prop.lower(), slug(pl["desc"]))
        payload = {"property": prop, "engine": "K", "harness": unit.name, "failed_obligation": pl["desc"],
                   "vals": pl["vals"], "note": "values of the harness inputs in kani::any() order (little-endian bytes)"}
        path = save_replay(prop, "%s--%s" % (unit.name, slug(pl["desc"])[:40]), payload)
        nat = native_replay(unit.name, path)
        reproduced = []
        native_label = None
        for profile, v in nat.items():
            failed = v.get("failed", []) if isinstance(v, dict) else []
            hit = [f for f in failed if f == pl["desc"] or (f.startswith("panic") and any(
                pl["desc"].startswith(p) for p in RUSTC_PANICS))]
            if not hit and not (isinstance(v, dict) and v.get("assume_failed")):
                # the same inputs violate a *different* labelled obligation of this property natively (e.g. the solver saw
                # an entropy request where the native run sees two calls disagreeing): still a reproduced violation
                hit = [f for f in failed if relevant(f, prop) and not f.startswith("panic")]
            if hit:
                reproduced.append(profile)
                native_label = native_label or hit[0]
        payload["native_replay"] = nat
        payload["reproduced_in"] = reproduced
        with open(path, "w") as fh:
            json.dump(payload, fh, indent=1)
        if reproduced:
            what = pl["desc"] if native_label in (None, pl["desc"]) else "%s [natively: %s]" % (pl["desc"], native_label)
            out.findings.append(Finding(prop, key, "%s (harness %s; reproduced natively in %s profile)" % (
                what, unit.name, "+".join(reproduced)), path))
        else:
            out.inconclusive.append("%s: counterexample for '%s' did not reproduce natively (%s) -- encoding/stub "
                                    "problem, not reported as a violation; replay file %s" % (
                                        unit.name, pl["desc"], json.dumps(nat)[:300], path))


def confirm_must(out, prop, unit, descs):
    """An unsatisfiable MUST-cover means its negation holds for all inputs.  Native confirmation: the body is
    run several times against the real environment (real OS entropy); never seeing the cover confirms it."""
    log("  [%s] required reachability unsatisfiable: %s -- confirming natively" % (unit.name, descs))
    payload = {"property": prop, "engine": "K", "harness": unit.name, "vals": [], "must_never_covered": descs,
               "note": "no solver inputs matter: the obligation fails for every input; replay runs the body natively"}
    path = save_replay(prop, "%s--must" % unit.name, payload)
    seen = set()
    runs = 0
    for _ in range(6):
        nat = native_replay(unit.name, path)
        for v in nat.values():
            if isinstance(v, dict) and "covered" in v:
                runs += 1
                seen.update(v["covered"])
    for d in descs:
        key = "%s/%s" % (prop.lower(), slug(d.replace("MUST: ", "")))
        if runs and d not in seen:
            out.findings.append(Finding(prop, key, "%s is impossible: the negation holds for every input (solver) and in "
                                        "%d native runs (harness %s)" % (d.replace("MUST: ", ""), runs, unit.name), path))
        else:
            out.inconclusive.append("%s: solver says '%s' is unreachable but native runs reached it (or replay failed)"
                                    % (unit.name, d))


def _run_unit(out, prop, unit, slot, lock):
    r = run_kani(unit.name, slot, unit.timeout, extra=unit.extra_args)
    checks = r["checks"]
    ev = {"engine": "K", "harness": unit.name, "wall_s": round(r["wall"], 1), "cbmc_time_s": r["time"],
          "checks": len(checks), "note": unit.note}
    failing = [c for c in checks if c["status"] == "FAILURE"]
    must = [c for c in checks if ".cover." in c["id"] and c["desc"].startswith("MUST: ")]
    must_bad = [c for c in must if c["status"] != "SATISFIED"]
    covers = [c for c in checks if ".cover." in c["id"] and not c["desc"].startswith("MUST: ")]
    sat_covers = [c for c in covers if c["status"] == "SATISFIED"]
    bad_covers = [c for c in covers if c["status"] != "SATISFIED"]
    undetermined = [c for c in checks if c["status"] in ("UNDETERMINED", "ERROR")]
    with lock:
        out.add_functions(unit.functions)
        out.add_bounds(unit.bounds)
        out.add_assumptions(unit.stubs)
        out.solver_s += r["time"] or 0.0
    if r["timed_out"] or r["rc"] not in (0, 1) or r["error_status"] or not (r["successful"] or r["failed"]):
        with lock:
            why = ""
            if "could not compile `mmk`" in r.get("text", ""):
                m = re.search(r"^error(?:\[E\d+\])?: ([^\n]+)", r["text"], re.M)
                why = " -- the harness does not compile against this tree (%s)" % (m.group(1)[:160] if m else "compile error")
            out.inconclusive.append("%s: no solver verdict (timeout=%s rc=%s error=%s)%s log %s" % (
                unit.name, r["timed_out"], r["rc"], r["error_status"], why, r["log"]))
            ev["verdict"] = "no-verdict"
            out.units.append(ev)
        return
    unwind_fail = [c for c in failing if "unwinding assertion" in c["desc"]]
    real_fail = [c for c in failing if "unwinding assertion" not in c["desc"] and relevant(c["desc"], prop)]
    other_fail = [c for c in failing if "unwinding assertion" not in c["desc"] and not relevant(c["desc"], prop)]
    must_bad = [c for c in must_bad if relevant(c["desc"], prop)]
    with lock:
        out.obligations += len(checks)
        out.covers += len(sat_covers)
        for c in checks:
            if is_label(c, unit.name) and c["status"] in ("SUCCESS", "SATISFIED", "FAILURE"):
                out.labelled.add(c["desc"])
        for c in checks:
            if is_label(c, unit.name) and len(out.samples) < 40 and not any(
                    s.get("obligation") == c["desc"] for s in out.samples):
                out.samples.append({"engine": "K", "harness": unit.name, "obligation": c["desc"],
                                    "kind": "cover" if ".cover." in c["id"] else "assertion", "status": c["status"]})
    if unwind_fail:
        with lock:
            out.inconclusive.append("%s: unwinding assertion failed (%s) -- bound too small for the current code" % (
                unit.name, unwind_fail[0]["loc"]))
    if unit.expect_covers and (bad_covers or not covers) and not (real_fail or other_fail):
        with lock:
            out.inconclusive.append("%s: reachability covers not all satisfied: %s" % (
                unit.name, [c["desc"] + "=" + c["status"] for c in bad_covers] or "no covers found"))
    und_lab = [c for c in undetermined if is_label(c, unit.name)]
    if und_lab and not real_fail:
        with lock:
            out.inconclusive.append("%s: labelled obligations undetermined: %s" % (unit.name, [c["desc"] for c in und_lab]))
    elif undetermined and not real_fail and not r["successful"]:
        with lock:
            out.inconclusive.append("%s: %d checks undetermined" % (unit.name, len(undetermined)))
    ev["undetermined_dependency_checks"] = [c["desc"] + " @ " + c["loc"][-80:] for c in undetermined if c not in und_lab][:5]
    ev["verdict"] = "holds" if not (failing or must_bad) else "failing-obligations"
    if must_bad and not unwind_fail:
        confirm_must(out, prop, unit, [c["desc"] for c in must_bad])
    ev["failed"] = sorted(set(c["desc"] for c in real_fail))
    ev["covers_satisfied"] = len(sat_covers)
    if real_fail:
        descs = sorted(set(c["desc"] for c in real_fail))
        only_labels = all(is_label(c, unit.name) for c in real_fail)
        if unit.robust and only_labels:
            # stage 2 of the rounding policy: the tolerant twin decides whether this is rounding only
            log("  [%s] exact-arithmetic obligation(s) failed: %s -- running tolerant twin %s" % (
                unit.name, descs, unit.robust))
            r2 = run_kani(unit.robust, slot, unit.timeout * 2, extra=unit.extra_args)
            fail2 = [c for c in r2["checks"] if c["status"] == "FAILURE" and "unwinding" not in c["desc"]]
            if r2["successful"] and not fail2:
                with lock:
                    out.rounding_only.append({"harness": unit.name, "obligations": descs})
                    ev["verdict"] = "holds (rounding-only discrepancy to the canonical evaluation order)"
                    out.units.append(ev)
                return
            if not (r2["successful"] or r2["failed"]) or r2["timed_out"]:
                with lock:
                    out.inconclusive.append("%s: tolerant twin gave no verdict (log %s)" % (unit.robust, r2["log"]))
                    out.units.append(ev)
                return
            u2 = KUnit(unit.robust, unit.timeout * 2, None, extra_args=unit.extra_args)
            confirm(out, prop, u2, slot, sorted(set(c["desc"] for c in fail2)))
        else:
            confirm(out, prop, unit, slot, descs)
    with lock:
        out.units.append(ev)


def run_units(out, prop, units, jobs=4):
    """Run all harnesses (each on its own target dir slot), fail closed."""
    prepare()
    q = queue.Queue()
    for u in units:
        q.put(u)
    lock = threading.Lock()

    def worker(slot):
        while True:
            try:
                u = q.get_nowait()
            except queue.Empty:
                return
            t0 = time.time()
            try:
                _run_unit(out, prop, u, slot, lock)
            except Exception as e:  # fail closed
                with lock:
                    out.inconclusive.append("%s: driver error %r" % (u.name, e))
            log("  [K] %s done in %.0fs" % (u.name, time.time() - t0))

    n = max(1, min(jobs, len(units)))
    ths = [threading.Thread(target=worker, args=(i,)) for i in range(n)]
    for t in ths:
        t.start()
    for t in ths:
        t.join()
