"""Which units (Kani harnesses, MIR-engine checks) decide which property, per tier."""
from kani_engine import KUnit

STUB_ENTROPY = "stub getrandom::fill -> arbitrary bytes chosen by the solver (OS entropy is an unconstrained input)"
STUB_LN = ("stub f32::ln / f64::ln -> contract function (NaN for NaN/negative, -inf at 0, finite otherwise, sign by "
           "comparison with 1, monotone and functional w.r.t. earlier calls); CBMC's own log model is loose")
STUB_SEED = ("stub <SmallRng as SeedableRng>::seed_from_u64 -> from_seed(seed || constant): assumes seed_from_u64 "
             "is injective and its streams are as good as from_seed's")
STUB_ZIG = ("stub rand_distr::utils::ziggurat -> deterministic finite function of exactly one next_u64() "
            "(bit operations only)")
KANI_BASE = ["Kani 0.68 goto translation + CBMC 6.11 (cadical) are trusted; dev-profile semantics "
             "(overflow checks on), release profile exercised by native replay only",
             "unwinding assertions on; every harness has reachability covers that must be SATISFIED"]


def k_units(prop, tier):
    T = tier == "thorough"
    U = []
    if prop == "C16":
        fn = ["mini_mcmc::distributions::Categorical::<f32>::new", "<Categorical<f32> as Discrete<f32>>::sample",
              "<Categorical<f32> as Discrete<f32>>::logp", "<Categorical<f32> as Target<usize,f32>>::unnorm_logp"]
        b = ["one sample() call from an arbitrary valid probability vector (each p in [0,1], |sum-1| <= 4*len*eps) "
             "and an arbitrary 256-bit generator state"]
        U.append(KUnit("c16_f32_len3", 900, None, fn, b + ["len 3, f32"], [STUB_ENTROPY]))
        U.append(KUnit("c16_f32_len2", 900, None, fn, b + ["len 2, f32"], [STUB_ENTROPY]))
        U.append(KUnit("c16_logp_f32", 600, None, fn, ["logp/unnorm_logp: len 3, index 0..5, weights in [0,16]"],
                       [STUB_ENTROPY, STUB_LN]))
        if T:
            fn64 = [f.replace("f32", "f64") for f in fn]
            U.append(KUnit("c16_f32_len1", 900, None, fn, b + ["len 1, f32"], [STUB_ENTROPY]))
            U.append(KUnit("c16_f32_len4", 2400, None, fn, b + ["len 4, f32"], [STUB_ENTROPY]))
            U.append(KUnit("c16_f64_len3", 3600, None, fn64, b + ["len 3, f64"], [STUB_ENTROPY]))
            U.append(KUnit("c16_logp_f64", 1200, None, fn64, ["logp/unnorm_logp f64: len 3, index 0..5"],
                           [STUB_ENTROPY, STUB_LN]))
    return U
