"""Which units (Kani harnesses, MIR-engine checks) decide which property, per tier."""
from kani_engine import KUnit

STUB_ENTROPY = "stub getrandom::fill -> arbitrary bytes chosen by the solver (OS entropy is an unconstrained input)"
STUB_LN = ("stub f32::ln / f64::ln -> contract function (NaN for NaN/negative, -inf at 0, finite otherwise, sign by "
           "comparison with 1, monotone and functional w.r.t. earlier calls); CBMC's own log model is loose")
STUB_SEED = ("stub <SmallRng as SeedableRng>::seed_from_u64 -> from_seed(seed || constant): assumes seed_from_u64 "
             "is injective and its streams are as good as from_seed's")
STUB_ZIG = ("stub rand_distr::utils::ziggurat -> deterministic finite function of exactly one next_u64() "
            "(bit operations only)")
KANI_BASE = ["Kani 0.68 goto translation + CBMC 6.11 (cadical) are trusted; dev-profile semantics "
             "(overflow checks on), release profile exercised by native replay only",
             "unwinding assertions on; every harness has reachability covers that must be SATISFIED"]


UNW = ["-Z", "unstable-options", "--cbmc-args", "--unwindset", "memcmp.0:34"]


def k_units(prop, tier):
    T = tier == "thorough"
    U = []

    def add(name, timeout, fn, bounds, stubs, robust=None, thorough_only=False, note=""):
        if thorough_only and not T:
            return
        U.append(KUnit(name, timeout, robust, fn, bounds, stubs, extra_args=UNW, note=note))

    if prop == "C16":
        fn = ["mini_mcmc::distributions::Categorical::<f32>::new", "<Categorical<f32> as Discrete<f32>>::sample",
              "<Categorical<f32> as Discrete<f32>>::logp", "<Categorical<f32> as Target<usize,f32>>::unnorm_logp"]
        fn64 = [f.replace("f32", "f64") for f in fn]
        b = ["one sample() call from an arbitrary valid probability vector (each p in [0,1], |sum-1| <= 4*len*eps) "
             "and an arbitrary 256-bit generator state (every producible uniform variate incl. 0 and 1-ulp)"]
        add("c16_f32_len3", 900, fn, b + ["len 3, f32"], [STUB_ENTROPY])
        add("c16_f32_len2", 900, fn, b + ["len 2, f32"], [STUB_ENTROPY])
        add("c16_logp_f32", 600, fn, ["logp/unnorm_logp: len 3, index 0..5, weights in [0,16]"], [STUB_ENTROPY, STUB_LN])
        add("c16_f32_len1", 900, fn, b + ["len 1, f32"], [STUB_ENTROPY], thorough_only=True)
        add("c16_f32_len4", 2400, fn, b + ["len 4, f32"], [STUB_ENTROPY], thorough_only=True)
        add("c16_f64_len3", 3600, fn64, b + ["len 3, f64"], [STUB_ENTROPY], thorough_only=True)
        add("c16_logp_f64", 1200, fn64, ["logp/unnorm_logp f64: len 3, index 0..5"], [STUB_ENTROPY, STUB_LN],
            thorough_only=True)
    if prop in ("C01", "C14"):
        fn = ["<mini_mcmc::metropolis_hastings::MHMarkovChain<S,F,D,Q> as MarkovChain<S>>::step",
              "MHMarkovChain::new"]
        b = ["one step from an arbitrary state x to an arbitrary candidate y; target an arbitrary table on {x,y} "
             "(any float incl. +-inf/NaN), proposal density an arbitrary asymmetric table on {x,y}^2, arbitrary "
             "256-bit generator state (every producible acceptance draw incl. 0 and 1-ulp)"]
        st = [STUB_ENTROPY, STUB_LN]
        if prop == "C01":
            add("c01_u8_f32", 1500, fn, b + ["instantiation S=u8, F=f32, len 1"], st, robust="c01_u8_f32_robust")
            add("c01_i32_f32", 1800, fn, b + ["instantiation S=i32, F=f32, len 1"], st, thorough_only=True)
            add("c01_f32_f32_len2", 2400, fn, b + ["instantiation S=f32, F=f32, len 2 (bitwise incl. NaN payloads, -0.0)"],
                st, thorough_only=True)
            add("c01_u8_f64", 3600, fn, b + ["instantiation S=u8, F=f64, len 1"], st, robust="c01_u8_f64_robust",
                thorough_only=True)
            add("c01_f64_f64_len2", 5400, fn, b + ["instantiation S=f64, F=f64, len 2"], st, thorough_only=True)
        else:
            b14 = ["as C01, restricted to lp(x) finite and lp(y) in {-inf, NaN}; all proposal densities incl. +-inf/NaN; "
                   "all acceptance draws incl. exactly 0 (which the property exempts)"]
            add("c14_mh_u8_f32", 1500, fn, b14 + ["instantiation S=u8, F=f32, len 1"], st)
            add("c14_mh_f64_f64_len2", 5400, fn, b14 + ["instantiation S=f64, F=f64, len 2"], st, thorough_only=True)
    if prop == "C05":
        fn = ["<mini_mcmc::gibbs::GibbsMarkovChain<S,D> as MarkovChain<S>>::step"]
        b = ["one step; dimension symbolic in 1..dmax; every answer of the conditional a solver variable"]
        add("c05_u8_d4", 600, fn, b + ["S=u8, dmax 4"], [])
        add("c05_f64_d3", 900, fn, b + ["S=f64 (bitwise), dmax 3"], [])
        add("c05_u8_d6", 1800, fn, b + ["S=u8, dmax 6"], [])
        add("c05_i32_d4", 900, fn, b + ["S=i32, dmax 4"], [], thorough_only=True)
    if prop in ("C07", "C08"):
        fn = ["mini_mcmc::metropolis_hastings::MetropolisHastings::<f64,f64,D,Q>::new", "MetropolisHastings::seed",
              "MHMarkovChain::new", "IsotropicGaussian::<f64>::{new,set_seed}", "GibbsSampler::set_seed"]
        st = [STUB_ENTROPY, STUB_SEED]
        b = ["seed symbolic over all of u64; OS entropy of every from_os_rng request symbolic; chain count concrete"]
        add("c07_mh_seeded_iso_n2", 1500, fn, b + ["MH, IsotropicGaussian proposal, 2 chains, two constructions "
                                                    "under different entropy"], st)
        add("c07_mh_seeded_iso_n2_top", 1500, fn, b + ["same, seed restricted to the top 9 values of u64 (per-chain "
                                                        "offsets wrap)"], st)
        add("c08_mh_seeded_user_n2", 900, fn, b + ["MH, user-defined seed-recording proposal, 2 chains"], st)
        if prop == "C07":
            add("c07_gibbs_seeded_n3", 900, fn, b + ["Gibbs, 3 chains"], st)
            add("c07_gibbs_seeded_n3_top", 900, fn, b + ["Gibbs, 3 chains, top of the seed range"], st)
        if prop == "C08":
            add("c08_mh_unseeded_iso_n2", 900, fn, ["default construction, 2 chains, all OS entropy symbolic; "
                                                    "obligation: generators are not copies (exists entropy with "
                                                    "different states)"], [STUB_ENTROPY, STUB_SEED])
            add("c08_mh_unseeded_iso_n3", 1500, fn, ["default construction, 3 chains"], [STUB_ENTROPY, STUB_SEED],
                thorough_only=True)
        add("c07_mh_seeded_iso_n3", 3000, fn, b + ["MH, IsotropicGaussian, 3 chains"], st, thorough_only=True)
        add("c08_mh_seeded_user_n3", 1800, fn, b + ["MH, user-defined proposal, 3 chains"], st, thorough_only=True)
    if prop == "C09":
        fn = ["mini_mcmc::core::run_chain::<u32, M> (through the real ndarray Array2)"]
        b = ["user-defined counting MarkovChain with symbolic start value; sizes concrete per harness "
             "(symbolic sizes exhaust CBMC's memory)"]
        add("c09_runchain_d2_c2_d1_m1", 900, fn, b + ["dim 2, run(2,1) then run(1,0)"], [])
        add("c09_runchain_d1_c0_d2_m2", 900, fn, b + ["dim 1, run(0,2) then run(2,0)"], [])
        add("c09_runchain_d2_c1_d0_m1", 900, fn, b + ["dim 2, run(1,0) then run(1,0)"], [])
        add("c09_runchain_d1_c3_d2_m0", 1200, fn, b + ["dim 1, run(3,2) then run(0,0)"], [], thorough_only=True)
        add("c09_runchain_d2_c3_d3_m2", 1500, fn, b + ["dim 2, run(3,3) then run(2,0)"], [], thorough_only=True)
    if prop == "C11":
        fn = ["mini_mcmc::stats::basic_stats (incl. std's sort_by with the repo's comparator closure)"]
        st = ["stub f32::sqrt -> contract function; stub f32::mul_add -> a*b+c (CBMC's libm models raise "
              "feraiseexcept assertions that are not Rust semantics); the std field is not inspected here"]
        add("c11_basic_fin_n3", 600, fn, ["3 arbitrary finite f32"], st)
        add("c11_basic_any_n3", 600, fn, ["3 arbitrary f32 incl. NaN/inf: no failure"], st)
        add("c11_basic_fin_n4", 900, fn, ["4 arbitrary finite f32"], st)
    if prop == "C13":
        fn = ["mini_mcmc::stats::MultiChainTracker::{new, step}"]
        add("c13_multi_f32", 2400, fn, ["2 chains x 2 params, 2 updates, arbitrary f32 incl. NaN"], [],
            robust="c13_multi_f32_robust", thorough_only=True)
    if prop == "C18":
        fn = ["mini_mcmc::core::{init, init_det, init_with_seed, _init}::<f32|f64>"]
        st = [STUB_ENTROPY, STUB_SEED, STUB_ZIG]
        b = ["seed symbolic over all of u64; sizes (n, d) concrete per harness"]
        add("c18_seeded_f64_1_2x2", 600, fn, b + ["f64: n=1 vs n=2, d=2"], st)
        add("c18_seeded_f32_1_2x2", 600, fn, b + ["f32: n=1 vs n=2, d=2"], st)
        add("c18_det_f32_2x2", 600, fn, ["init_det vs init_with_seed(42), f32 2x2"], st)
        add("c18_unseeded_f64_2x2", 600, fn, ["init (OS entropy symbolic), f64 2x2"], st)
        add("c18_seeded_f64_2_3x1", 900, fn, b + ["f64: n=2 vs n=3, d=1"], st, thorough_only=True)
        add("c18_seeded_f64_2_3x3", 1800, fn, b + ["f64: n=2 vs n=3, d=3"], st, thorough_only=True)
        add("c18_seeded_f32_0_1x2", 600, fn, b + ["f32: n=0 vs n=1, d=2"], st, thorough_only=True)
        add("c18_det_f64_2x2", 600, fn, ["init_det vs init_with_seed(42), f64 2x2"], st, thorough_only=True)
        add("c18_unseeded_f32_3x1", 600, fn, ["init (OS entropy symbolic), f32 3x1"], st, thorough_only=True)
    return U


# ------------------------------------------------------------------------------------------------
# Engine M
# ------------------------------------------------------------------------------------------------
def m_checks(out, prop, tier, seed, only=None):
    """Run the MIR-engine units of a property.  Returns True if any unit is registered."""
    import traceback
    import mirsym
    table = m_table()
    units = table.get(prop, [])
    ran = False
    for name, fn in units:
        if only and name not in only.split(","):
            continue
        ran = True
        from common import log
        import time
        t0 = time.time()
        try:
            fn(out, tier, seed)
        except mirsym.Unmodelled as e:
            out.inconclusive.append("%s: unmodelled construct -- %s" % (name, e))
        except Exception as e:  # fail closed
            out.inconclusive.append("%s: engine error %r\n%s" % (name, e, traceback.format_exc()[-1500:]))
        log("  [M] %s done in %.0fs" % (name, time.time() - t0))
    if ran:
        out.add_assumptions([
            "MIR engine: rustc nightly's MIR of the current /repo sources (regenerated per source hash) is executed "
            "symbolically by /verif/lib/mirsym.py; library callees follow the model table (each used model is listed); "
            "z3 decides every obligation under the path condition; `unknown` is never success",
        ])
    return ran


def m_table():
    import m_stats
    import m_dist
    import m_nuts
    import m_hmc
    import m_run
    import m_io
    import m_gibbs
    import m_mh
    return {
        "C17": [("c17_layout", m_io.c17_layout)],
        "C05": [("c05_gibbs_sweeps", m_gibbs.c05_gibbs_sweeps)],
        "C08": [("c08_nuts_streams", m_nuts.c08_nuts_streams), ("c08_mh_streams", m_mh.c08_mh_streams)],
        "C09": [("c09_runner", m_run.c09_runner), ("c09_hmc_run", m_run.c09_hmc_run), ("c09_nuts_run", m_run.c09_nuts_run)],
        "C10": [("c10_run_chain_progress", m_run.c10_run_chain_progress), ("c10_precision", m_run.c10_precision),
                ("c10_reporter", m_run.c10_reporter), ("c10_reporter_nuts", m_run.c10_reporter_nuts),
                ("c10_hmc_progress", m_run.c10_hmc_progress)],
        "C12": [("c12_ess", m_stats.c12_ess), ("c12_autocov_bf", m_stats.c12_autocov_bf)],
        "C16": [("c16_new", m_stats.c16_new)],
        "C18": [("c18_init_stream", m_run.c18_init_stream)],
        "C02": [("c02_hmc_step", m_hmc.c02_hmc_step), ("c02_reversible", m_hmc.c02_reversible),
                ("c02_hmc_two_steps", m_hmc.c02_hmc_two_steps), ("c02_hmc_nan", m_hmc.c02_hmc_nan)],
        "C07": [("c07_hmc_hidden_randomness", m_hmc.c07_hmc_hidden_randomness), ("c07_nuts_set_seed", m_nuts.c07_nuts_set_seed),
                ("c07_parallel_closure", m_run.c07_parallel_closure), ("c07_nuts_hidden_randomness", m_nuts.c07_nuts_hidden_randomness),
                ("c08_mh_streams", m_mh.c08_mh_streams)],
        "C04": [("c04_adaptation", m_nuts.c04_adaptation)],
        "C03": [("c03_build_tree", m_nuts.c03_build_tree), ("c03_step", m_nuts.c03_step), ("c03_loop_condition", m_nuts.c03_loop_condition)],
        "C14": [("c14_hmc", m_hmc.c14_hmc), ("c14_nuts", m_nuts.c14_nuts)],
        "C15": [("c15_isotropic", m_dist.c15_isotropic), ("c15_gaussian2d", m_dist.c15_gaussian2d),
                ("c15_tensor_targets", m_dist.c15_tensor_targets)],
        "C11": [("c11_split_rhat", m_stats.c11_split_rhat), ("c11_comparator", m_stats.c11_comparator),
                ("c11_summary", m_stats.c11_summary)],
        "C13": [("c13_trackers", m_stats.c13_trackers)],
    }
