"""Shared plumbing for /verif/bin/check: paths, evidence, known findings, verdict reporting."""
import hashlib
import json
import os
import sys
import time

VERIF = os.path.dirname(os.path.dirname(os.path.abspath(__file__)))
REPO = os.environ.get("VERIF_REPO", "/repo")
CACHE = os.path.join(VERIF, ".cache")
EVIDENCE = os.path.join(VERIF, "evidence")
REPLAYS = os.path.join(VERIF, "replays")
KNOWN = os.path.join(VERIF, "known_findings.json")

OFFLINE_ENV = {"CARGO_NET_OFFLINE": "true", "GOPROXY": "off", "PIP_NO_INDEX": "1"}


def env_offline(extra=None):
    e = dict(os.environ)
    e.update(OFFLINE_ENV)
    if extra:
        e.update(extra)
    return e


def log(*a):
    print(*a, flush=True)


def repo_src_hash():
    """sha256 over the repository sources that the encodings are generated from."""
    h = hashlib.sha256()
    files = []
    for root, _dirs, fs in os.walk(os.path.join(REPO, "src")):
        for f in fs:
            if f.endswith(".rs"):
                files.append(os.path.join(root, f))
    files.append(os.path.join(REPO, "Cargo.toml"))
    for f in sorted(files):
        h.update(f.encode())
        with open(f, "rb") as fh:
            h.update(fh.read())
    return h.hexdigest()


def load_known():
    try:
        with open(KNOWN) as fh:
            return json.load(fh)
    except FileNotFoundError:
        return {"open": [], "fixed": []}


class Finding:
    """A confirmed (natively replayed) violation."""

    def __init__(self, prop, key, what, replay_path, detail=None):
        self.prop = prop
        self.key = key  # role key, e.g. "c16/sample/zero-probability-category"
        self.what = what
        self.replay = replay_path
        self.detail = detail or {}


class Outcome:
    """Collected result of all units of one property check."""

    def __init__(self, prop, tier, seed):
        self.prop = prop
        self.tier = tier
        self.seed = seed
        self.t0 = time.time()
        self.findings = []  # confirmed violations
        self.inconclusive = []  # strings: time-outs, unknowns, unconfirmed counterexamples
        self.units = []  # per-unit evidence dicts
        self.assumptions = []
        self.functions = []
        self.bounds = []
        self.out_of_scope = []
        self.samples = []
        self.obligations = 0  # solver-level obligations decided (all kinds)
        self.labelled = set()  # distinct harness-level obligations decided
        self.covers = 0
        self.solver_s = 0.0
        self.rounding_only = []

    def add_assumptions(self, xs):
        for x in xs:
            if x not in self.assumptions:
                self.assumptions.append(x)

    def add_functions(self, xs):
        for x in xs:
            if x not in self.functions:
                self.functions.append(x)

    def add_bounds(self, xs):
        for x in xs:
            if x not in self.bounds:
                self.bounds.append(x)


def finish(out: Outcome, level="model_checking", technique=""):
    """Write evidence, print verdict lines, return exit code."""
    known = load_known()
    open_keys = {}
    for k in known.get("open", []):
        if k.get("property") == out.prop:
            open_keys[k["key"]] = k
    new = []
    known_hit = []
    seen_keys = set()
    uniq = []
    for f in out.findings:  # one finding per role key (several harnesses may hit the same defect)
        if f.key in seen_keys:
            continue
        seen_keys.add(f.key)
        uniq.append(f)
    out.findings = uniq
    for f in out.findings:
        if f.key in open_keys:
            known_hit.append(f)
        else:
            new.append(f)
    wall = time.time() - out.t0
    ev = {
        "property_id": out.prop,
        "tier": out.tier,
        "seed": out.seed,
        "level": level,
        "coverage": {
            "evaluations": out.obligations,
            "distinct_nontrivial": len(out.labelled),
            "rule": "evaluations = solver-level obligations decided in this run (CBMC properties incl. "
            "the compiler-inserted panics/overflow/bounds checks and unwinding assertions, plus "
            "z3/cvc5 queries of the MIR engine); distinct_nontrivial = distinct labelled "
            "harness-level obligations and reachability covers (each quantified over all symbolic "
            "inputs within the stated bounds) that were decided by the solver; nothing is sampled",
            "samples": out.samples[:40],
            "exhaustive": False,
            "technique": technique,
            "functions_encoded": out.functions,
            "bounds": out.bounds,
            "outside_the_claim": out.out_of_scope,
            "reachability_covers_satisfied": out.covers,
            "solver_time_s": round(out.solver_s, 2),
            "units": out.units,
            "repo_src_sha256": repo_src_hash(),
            "inconclusive": out.inconclusive,
            "rounding_only_discrepancies": out.rounding_only,
            "known_findings_reproduced": [f.key for f in known_hit],
            "violations_detail": [
                {"key": f.key, "what": f.what, "replay": f.replay} for f in new
            ],
        },
        "assumptions": out.assumptions,
        "wall_s": round(wall, 2),
        "violations": len(new),
    }
    os.makedirs(EVIDENCE, exist_ok=True)
    # (developer runs restricted with --only may divert their evidence so the registered file is not clobbered)
    with open(os.path.join(EVIDENCE, out.prop + os.environ.get("VERIF_EVIDENCE_SUFFIX", "") + ".json"), "w") as fh:
        json.dump(ev, fh, indent=1, sort_keys=False)
    for f in known_hit:
        log("KNOWN-FINDING: property=%s %s [%s]" % (out.prop, open_keys[f.key].get("what", f.what), f.key))
    for f in new:
        log("VIOLATION property=%s replay=%s" % (out.prop, f.replay))
        log("  what: %s [%s]" % (f.what, f.key))
    if new:
        return 1
    if out.inconclusive:
        for s in out.inconclusive:
            log("INCONCLUSIVE: property=%s %s" % (out.prop, s))
        return 2
    log(
        "OK property=%s tier=%s obligations=%d labelled=%d covers=%d solver=%.1fs wall=%.1fs"
        % (out.prop, out.tier, out.obligations, len(out.labelled), out.covers, out.solver_s, wall)
    )
    return 0


def save_replay(prop, name, payload):
    d = os.path.join(REPLAYS, prop)
    os.makedirs(d, exist_ok=True)
    p = os.path.join(d, name + ".json")
    with open(p, "w") as fh:
        json.dump(payload, fh, indent=1)
    return p
