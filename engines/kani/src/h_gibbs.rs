//! C07 for Gibbs: `GibbsSampler::set_seed`.  Own module behind the crate feature `gibbs` (struct literals of the repository's
//! Gibbs types, see h_c05.rs).
use crate::h_c07::ConstCond;
use crate::Src;
use crate::{chk, cov};
use mini_mcmc::gibbs::{GibbsMarkovChain, GibbsSampler};
use rand::rngs::SmallRng;
use rand::SeedableRng;

macro_rules! gibbs_seeded {
    ($name:ident, $n:expr, $top:expr) => {
        /// `GibbsSampler::set_seed(s)`: total over u64, reproducible, pairwise distinct.
        pub fn $name(src: &mut Src) {
            const N: usize = $n;
            let s = src.u64();
            if $top {
                src.assume(s >= u64::MAX - 8);
            }
            let e1 = src.seed32();
            let e2 = src.seed32();
            let mk = |e: [u8; 32]| {
                let mut chains = Vec::with_capacity(N);
                let mut i = 0;
                while i < N {
                    chains.push(GibbsMarkovChain { target: ConstCond, current_state: vec![0.0f64], seed: 1, rng: SmallRng::from_seed(e) });
                    i += 1;
                }
                GibbsSampler { target: ConstCond, chains, seed: 1 }
            };
            let a = mk(e1).set_seed(s);
            let b = mk(e2).set_seed(s);
            chk!(src, a.chains.len() == N && b.chains.len() == N, "set_seed keeps the chains");
            if a.chains.len() != N || b.chains.len() != N {
                return;
            }
            let mut i = 0;
            while i < N {
                chk!(src, a.chains[i].rng == b.chains[i].rng, "same seed gives the same generator per chain (C07)");
                let mut j = i + 1;
                while j < N {
                    chk!(src, a.chains[i].rng != a.chains[j].rng, "seeded Gibbs chains have pairwise distinct generators");
                    j += 1;
                }
                i += 1;
            }
            cov!(src, s == u64::MAX, "largest seed");
            cov!(src, true, "end reached");
        }
    };
}
gibbs_seeded!(c07_gibbs_seeded_n3, 3, false);
gibbs_seeded!(c07_gibbs_seeded_n3_top, 3, true);

pub fn by_name(name: &str) -> Option<fn(&mut Src)> {
    Some(match name {
        "c07_gibbs_seeded_n3" => c07_gibbs_seeded_n3,
        "c07_gibbs_seeded_n3_top" => c07_gibbs_seeded_n3_top,
        _ => return None,
    })
}
