//! C07 (seed plumbing, Engine K part) and C08 (distinct streams) for Metropolis-Hastings and
//! Gibbs.  Real code: `MetropolisHastings::{new, seed}`, `MHMarkovChain::new`,
//! `IsotropicGaussian::{new, set_seed}`, `GibbsSampler::set_seed`.
//! Symbolic: the 64-bit seed (all of u64, so the top of the range is covered), the OS entropy of
//! every `from_os_rng` request.  `seed_from_u64` is the injective recorder stub.

use crate::env;
use crate::h_c01::BitEq;
use crate::Src;
use crate::{chk, cov, must};
use mini_mcmc::distributions::{Conditional, IsotropicGaussian, Proposal, Target};
use mini_mcmc::metropolis_hastings::MetropolisHastings;
use rand::rngs::SmallRng;
use rand::SeedableRng;

#[derive(Clone, PartialEq, Debug)]
pub struct FlatTarget;
impl Target<f64, f64> for FlatTarget {
    fn unnorm_logp(&self, _p: &[f64]) -> f64 {
        0.0
    }
}

/// A user-defined seedable proposal: remembers what `set_seed` told it.
#[derive(Clone, PartialEq, Debug)]
pub struct SeedRec {
    pub seed: Option<u64>,
    pub rng: SmallRng,
}
impl Proposal<f64, f64> for SeedRec {
    fn sample(&mut self, current: &[f64]) -> Vec<f64> {
        current.to_vec()
    }
    fn logp(&self, _from: &[f64], _to: &[f64]) -> f64 {
        0.0
    }
    fn set_seed(mut self, seed: u64) -> Self {
        self.seed = Some(seed);
        self.rng = env::rng_of_seed(seed);
        self
    }
}

#[derive(Clone, PartialEq, Debug)]
pub struct ConstCond;
impl Conditional<f64> for ConstCond {
    fn sample(&mut self, _i: usize, given: &[f64]) -> f64 {
        given[0]
    }
}

fn states(n: usize) -> Vec<Vec<f64>> {
    let mut v = Vec::with_capacity(n);
    let mut i = 0;
    while i < n {
        v.push(vec![0.0f64]);
        i += 1;
    }
    v
}

macro_rules! mh_seeded_iso {
    ($name:ident, $n:expr, $top:expr) => {
        /// `MetropolisHastings::new(..).seed(s)` with the library's IsotropicGaussian proposal.
        pub fn $name(src: &mut Src) {
            const N: usize = $n;
            let s = src.u64();
            if $top {
                // the top of the seed range, where per-chain offsets wrap
                src.assume(s >= u64::MAX - 8);
            }
            env::set_entropy(src, 4 * (2 * N + 2));
            // sampler A and sampler B: same inputs and seed, different OS entropy
            let pa = IsotropicGaussian::<f64>::new(1.0);
            let a = MetropolisHastings::new(FlatTarget, pa, states(N)).seed(s);
            let pb = IsotropicGaussian::<f64>::new(1.0);
            let b = MetropolisHastings::new(FlatTarget, pb, states(N)).seed(s);
            chk!(src, a.chains.len() == N, "one chain per initial state");
            if a.chains.len() != N || b.chains.len() != N {
                return;
            }
            let mut i = 0;
            while i < N {
                chk!(src, a.chains[i].rng == b.chains[i].rng, "same seed gives the same acceptance generator (C07)");
                chk!(src, a.chains[i].proposal == b.chains[i].proposal, "same seed gives the same proposal generator, whatever the OS entropy (C07)");
                let mut j = i + 1;
                while j < N {
                    chk!(src, a.chains[i].rng != a.chains[j].rng, "seeded chains have pairwise distinct acceptance generators (C08)");
                    chk!(src, a.chains[i].proposal != a.chains[j].proposal, "seeded chains have pairwise distinct proposal generators (C08)");
                    j += 1;
                }
                let mut j = 0;
                while j < N {
                    chk!(src, a.chains[i].rng != *a.chains[j].proposal.verif_rng(), "no acceptance generator equals a proposal generator (C08)");
                    j += 1;
                }
                i += 1;
            }
            cov!(src, s == u64::MAX, "largest seed");
            cov!(src, true, "end reached");
        }
    };
}
mh_seeded_iso!(c07_mh_seeded_iso_n2, 2, false);
mh_seeded_iso!(c07_mh_seeded_iso_n3, 3, false);
mh_seeded_iso!(c07_mh_seeded_iso_n2_top, 2, true);

macro_rules! mh_seeded_user {
    ($name:ident, $n:expr) => {
        /// `MetropolisHastings::new(..).seed(s)` with a user-defined seedable proposal.
        pub fn $name(src: &mut Src) {
            const N: usize = $n;
            let s = src.u64();
            env::set_entropy(src, 4 * (N + 1));
            let p = SeedRec { seed: None, rng: SmallRng::from_seed([3u8; 32]) };
            let a = MetropolisHastings::new(FlatTarget, p, states(N)).seed(s);
            if a.chains.len() != N {
                chk!(src, false, "one chain per initial state");
                return;
            }
            let mut i = 0;
            while i < N {
                let mut j = i + 1;
                while j < N {
                    chk!(src, a.chains[i].rng != a.chains[j].rng, "seeded chains have pairwise distinct acceptance generators (C08)");
                    chk!(src, a.chains[i].proposal.rng != a.chains[j].proposal.rng, "seeded chains give a user-defined seedable proposal pairwise distinct seeds (C08)");
                    j += 1;
                }
                let mut j = 0;
                while j < N {
                    chk!(src, a.chains[i].rng != a.chains[j].proposal.rng, "no acceptance generator is seeded like a proposal (C08)");
                    j += 1;
                }
                i += 1;
            }
            cov!(src, s == u64::MAX, "largest seed");
            cov!(src, true, "end reached");
        }
    };
}
mh_seeded_user!(c08_mh_seeded_user_n2, 2);
mh_seeded_user!(c08_mh_seeded_user_n3, 3);

macro_rules! mh_unseeded_iso {
    ($name:ident, $n:expr) => {
        /// default construction: no two generators of the sampler are copies of one another, i.e.
        /// for each pair there is OS entropy under which they differ (a clone is equal under all).
        pub fn $name(src: &mut Src) {
            const N: usize = $n;
            env::set_entropy(src, env::ENTROPY_WORDS);
            let p = IsotropicGaussian::<f64>::new(1.0);
            let a = MetropolisHastings::new(FlatTarget, p, states(N));
            if a.chains.len() != N {
                chk!(src, false, "one chain per initial state");
                return;
            }
            must!(src, a.chains[0].rng != a.chains[1].rng, "unseeded chains 0 and 1 can have different acceptance generators (C08)");
            must!(src, a.chains[0].proposal != a.chains[1].proposal, "unseeded chains 0 and 1 can have different proposal generators (C08)");
            must!(src, a.chains[N - 1].proposal != a.chains[0].proposal, "unseeded first and last chain can have different proposal generators (C08)");
            must!(src, a.chains[0].rng != *a.chains[0].proposal.verif_rng(), "acceptance and proposal generator of a chain can differ (C08)");
            must!(src, a.chains[1].rng != *a.chains[0].proposal.verif_rng(), "acceptance generator of chain 1 and proposal generator of chain 0 can differ (C08)");
            cov!(src, true, "end reached");
        }
    };
}
mh_unseeded_iso!(c08_mh_unseeded_iso_n2, 2);
mh_unseeded_iso!(c08_mh_unseeded_iso_n3, 3);


#[allow(dead_code)]
fn _unused(_: &dyn Fn(f64) -> bool) -> bool {
    <f64 as BitEq>::biteq(0.0, 0.0)
}

pub fn by_name(name: &str) -> Option<fn(&mut Src)> {
    Some(match name {
        "c07_mh_seeded_iso_n2" => c07_mh_seeded_iso_n2,
        "c07_mh_seeded_iso_n3" => c07_mh_seeded_iso_n3,
        "c07_mh_seeded_iso_n2_top" => c07_mh_seeded_iso_n2_top,
        "c08_mh_seeded_user_n2" => c08_mh_seeded_user_n2,
        "c08_mh_seeded_user_n3" => c08_mh_seeded_user_n3,
        "c08_mh_unseeded_iso_n2" => c08_mh_unseeded_iso_n2,
        "c08_mh_unseeded_iso_n3" => c08_mh_unseeded_iso_n3,
        _ => return None,
    })
}
