//! C09 (Engine K part) — `core::run_chain`: shape, order, burn-in, exact number of transitions,
//! continuation.  Real code: `mini_mcmc::core::run_chain::<u32, M>` through the real ndarray.
//! The chain is a user-defined `MarkovChain` whose state is its own transition count (from a
//! symbolic start) so every row identifies the transition that produced it.

use crate::Src;
use crate::{chk, cov};
use mini_mcmc::core::{run_chain, MarkovChain};

pub struct Counter {
    pub state: Vec<u32>,
    pub steps: u32,
}
impl MarkovChain<u32> for Counter {
    fn step(&mut self) -> &Vec<u32> {
        self.steps += 1;
        self.state[0] = self.state[0].wrapping_add(1);
        &self.state
    }
    fn current_state(&self) -> &Vec<u32> {
        &self.state
    }
}

macro_rules! c09_body {
    ($name:ident, $dim:expr, $nc:expr, $nd:expr, $nm:expr) => {
        pub fn $name(src: &mut Src) {
            const DIM: usize = $dim;
            let start = src.u32();
            let tag = src.u32();
            // sizes are concrete per harness (symbolic sizes exhaust memory in CBMC); values are symbolic
            let n_collect: usize = $nc;
            let n_discard: usize = $nd;
            let n_more: usize = $nm;
            let mut st = vec![start];
            if DIM == 2 {
                st.push(tag);
            }
            let mut chain = Counter { state: st, steps: 0 };
            let out = run_chain(&mut chain, n_collect, n_discard);
            chk!(src, out.nrows() == n_collect && out.ncols() == DIM, "result has shape [n_collect, dim]");
            if out.nrows() != n_collect || out.ncols() != DIM {
                return;
            }
            chk!(src, chain.steps as usize == n_collect + n_discard, "exactly n_collect + n_discard transitions are performed");
            let mut k = 0;
            while k < n_collect {
                let want = start.wrapping_add((n_discard + k + 1) as u32);
                chk!(src, out[[k, 0]] == want, "entry k is the state after exactly n_discard + k + 1 transitions");
                if DIM == 2 {
                    chk!(src, out[[k, 1]] == tag, "every coordinate of the state is copied");
                }
                k += 1;
            }
            chk!(src, chain.state[0] == start.wrapping_add((n_collect + n_discard) as u32), "the chain is left at the last transition's state");
            // continuation: a second run starts where the first one stopped
            let out2 = run_chain(&mut chain, n_more, 0);
            chk!(src, out2.nrows() == n_more, "second run has n_more rows");
            if out2.nrows() != n_more {
                return;
            }
            let mut k = 0;
            while k < n_more {
                let want = start.wrapping_add((n_discard + n_collect + k + 1) as u32);
                chk!(src, out2[[k, 0]] == want, "two consecutive runs return what one longer run returns");
                k += 1;
            }
            chk!(src, chain.steps as usize == n_collect + n_discard + n_more, "the second run performs exactly n_more transitions");
            cov!(src, start == u32::MAX, "start value at the top of the range");
            cov!(src, true, "end reached");
        }
    };
}
c09_body!(c09_runchain_d2_c2_d1_m1, 2, 2, 1, 1);
c09_body!(c09_runchain_d1_c0_d2_m2, 1, 0, 2, 2);
c09_body!(c09_runchain_d2_c1_d0_m1, 2, 1, 0, 1);
c09_body!(c09_runchain_d1_c3_d2_m0, 1, 3, 2, 0);
c09_body!(c09_runchain_d2_c3_d3_m2, 2, 3, 3, 2);

pub fn by_name(name: &str) -> Option<fn(&mut Src)> {
    Some(match name {
        "c09_runchain_d2_c2_d1_m1" => c09_runchain_d2_c2_d1_m1,
        "c09_runchain_d1_c0_d2_m2" => c09_runchain_d1_c0_d2_m2,
        "c09_runchain_d2_c1_d0_m1" => c09_runchain_d2_c1_d0_m1,
        "c09_runchain_d1_c3_d2_m0" => c09_runchain_d1_c3_d2_m0,
        "c09_runchain_d2_c3_d3_m2" => c09_runchain_d2_c3_d3_m2,
        _ => return None,
    })
}
