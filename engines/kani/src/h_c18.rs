//! C18 — initial-position helpers.  Real code: `core::{init, init_det, init_with_seed, _init}`.
//! Symbolic: the seed (all of u64) and OS entropy; sizes are concrete per harness (symbolic
//! sizes do not finish).  `ziggurat` and `seed_from_u64` are stubbed (see env.rs).

use crate::env;
use crate::Src;
use crate::{chk, cov};
use mini_mcmc::core::{init, init_det, init_with_seed};

fn same_f64(a: &Vec<Vec<f64>>, b: &Vec<Vec<f64>>, rows: usize) -> bool {
    if a.len() < rows || b.len() < rows {
        return false;
    }
    let mut i = 0;
    while i < rows {
        if a[i].len() != b[i].len() {
            return false;
        }
        let mut j = 0;
        while j < a[i].len() {
            if a[i][j].to_bits() != b[i][j].to_bits() {
                return false;
            }
            j += 1;
        }
        i += 1;
    }
    true
}
fn same_f32(a: &Vec<Vec<f32>>, b: &Vec<Vec<f32>>, rows: usize) -> bool {
    if a.len() < rows || b.len() < rows {
        return false;
    }
    let mut i = 0;
    while i < rows {
        if a[i].len() != b[i].len() {
            return false;
        }
        let mut j = 0;
        while j < a[i].len() {
            if a[i][j].to_bits() != b[i][j].to_bits() {
                return false;
            }
            j += 1;
        }
        i += 1;
    }
    true
}

macro_rules! c18_seeded {
    ($name:ident, $F:ty, $same:ident, $n1:expr, $n2:expr, $d:expr) => {
        pub fn $name(src: &mut Src) {
            let seed = src.u64();
            unsafe {
                env::ENTROPY_FORBIDDEN = true;
                env::ENTROPY_FORBIDDEN_HIT = false;
            }
            let a: Vec<Vec<$F>> = init_with_seed($n1, $d, seed);
            let b: Vec<Vec<$F>> = init_with_seed($n2, $d, seed);
            let a2: Vec<Vec<$F>> = init_with_seed($n1, $d, seed);
            chk!(src, a.len() == $n1 && b.len() == $n2, "init_with_seed returns exactly n vectors");
            let mut ok = true;
            let mut fin = true;
            let mut i = 0;
            while i < b.len() {
                if b[i].len() != $d {
                    ok = false;
                }
                let mut j = 0;
                while j < b[i].len() {
                    if !b[i][j].is_finite() {
                        fin = false;
                    }
                    j += 1;
                }
                i += 1;
            }
            chk!(src, ok, "every vector has length d");
            chk!(src, fin, "entries are finite");
            chk!(src, $same(&a, &a2, $n1), "init_with_seed is a pure function of its arguments");
            chk!(src, $same(&a, &b, $n1), "the first rows of a larger request equal the smaller request");
            unsafe {
                chk!(src, !env::ENTROPY_FORBIDDEN_HIT, "the seeded initialiser never asks the OS for entropy");
                env::ENTROPY_FORBIDDEN = false;
            }
            cov!(src, seed == u64::MAX, "largest seed");
            cov!(src, true, "end reached");
        }
    };
}
c18_seeded!(c18_seeded_f64_1_2x2, f64, same_f64, 1, 2, 2);
c18_seeded!(c18_seeded_f32_1_2x2, f32, same_f32, 1, 2, 2);
c18_seeded!(c18_seeded_f64_2_3x1, f64, same_f64, 2, 3, 1);
c18_seeded!(c18_seeded_f64_2_3x3, f64, same_f64, 2, 3, 3);
c18_seeded!(c18_seeded_f32_0_1x2, f32, same_f32, 0, 1, 2);

macro_rules! c18_det {
    ($name:ident, $F:ty, $same:ident, $n:expr, $d:expr) => {
        pub fn $name(src: &mut Src) {
            unsafe {
                env::ENTROPY_FORBIDDEN = true;
                env::ENTROPY_FORBIDDEN_HIT = false;
            }
            let a: Vec<Vec<$F>> = init_det($n, $d);
            let b: Vec<Vec<$F>> = init_with_seed($n, $d, 42);
            chk!(src, a.len() == $n, "init_det returns exactly n vectors");
            chk!(src, $same(&a, &b, $n), "init_det equals init_with_seed with seed 42");
            unsafe {
                chk!(src, !env::ENTROPY_FORBIDDEN_HIT, "the seeded initialiser never asks the OS for entropy");
                env::ENTROPY_FORBIDDEN = false;
            }
            cov!(src, true, "end reached");
        }
    };
}
c18_det!(c18_det_f64_2x2, f64, same_f64, 2, 2);
c18_det!(c18_det_f32_2x2, f32, same_f32, 2, 2);

macro_rules! c18_unseeded {
    ($name:ident, $F:ty, $n:expr, $d:expr) => {
        pub fn $name(src: &mut Src) {
            env::set_entropy(src, 4);
            let a: Vec<Vec<$F>> = init($n, $d);
            chk!(src, a.len() == $n, "init returns exactly n vectors");
            let mut ok = true;
            let mut fin = true;
            let mut i = 0;
            while i < a.len() {
                if a[i].len() != $d {
                    ok = false;
                }
                let mut j = 0;
                while j < a[i].len() {
                    if !a[i][j].is_finite() {
                        fin = false;
                    }
                    j += 1;
                }
                i += 1;
            }
            chk!(src, ok, "every vector has length d");
            chk!(src, fin, "entries are finite");
            cov!(src, true, "end reached");
        }
    };
}
c18_unseeded!(c18_unseeded_f64_2x2, f64, 2, 2);
c18_unseeded!(c18_unseeded_f32_3x1, f32, 3, 1);

pub fn by_name(name: &str) -> Option<fn(&mut Src)> {
    Some(match name {
        "c18_seeded_f64_1_2x2" => c18_seeded_f64_1_2x2,
        "c18_seeded_f32_1_2x2" => c18_seeded_f32_1_2x2,
        "c18_seeded_f64_2_3x1" => c18_seeded_f64_2_3x1,
        "c18_seeded_f64_2_3x3" => c18_seeded_f64_2_3x3,
        "c18_seeded_f32_0_1x2" => c18_seeded_f32_0_1x2,
        "c18_det_f64_2x2" => c18_det_f64_2x2,
        "c18_det_f32_2x2" => c18_det_f32_2x2,
        "c18_unseeded_f64_2x2" => c18_unseeded_f64_2x2,
        "c18_unseeded_f32_3x1" => c18_unseeded_f32_3x1,
        _ => return None,
    })
}
