//! C16 — Categorical: normalised probabilities, exact logp, samples follow probs and never hit
//! a zero-probability category.  Real code: `Categorical::new`, `Discrete::{sample,logp}`,
//! `Target::unnorm_logp`.  Symbolic: the weights, the OS entropy seeding the private generator
//! (hence every uniform variate it can produce, including exactly 0 and 1-ulp), the index.

use crate::env;
use crate::Src;
use crate::{chk, cov};
use mini_mcmc::distributions::{Categorical, Discrete, Target};
use rand::rngs::SmallRng;
use rand::{Rng, SeedableRng};

// `new`: stored probabilities are weight / (left-to-right sum of weights), in [0,1], summing to one.
macro_rules! c16_new_body {
    ($name:ident, $F:ty, $len:expr, $robust:expr, $anyf:ident) => {
        pub fn $name(src: &mut Src) {
            const LEN: usize = $len;
            let robust: bool = $robust;
            let mut w: [$F; LEN] = [0.0; LEN];
            let mut sum: $F = 0.0;
            let mut i = 0;
            while i < LEN {
                let x: $F = src.$anyf();
                src.assume(x >= 0.0 && x <= 16.0);
                w[i] = x;
                sum = sum + x;
                i += 1;
            }
            src.assume(sum > 0.0009765625);
            env::set_entropy(src, 4);
            let cat = Categorical::<$F>::new(w.to_vec());
            chk!(src, cat.probs.len() == LEN, "probs has one entry per weight");
            if cat.probs.len() != LEN {
                return;
            }
            let eps: $F = <$F>::EPSILON;
            let mut psum: $F = 0.0;
            let mut i = 0;
            while i < LEN {
                let p = cat.probs[i];
                chk!(src, p >= 0.0 && p <= 1.0, "each stored probability lies in [0,1]");
                if robust {
                    // p*sum within a few ulps of w (no second divider circuit)
                    let back = p * sum;
                    chk!(src, (back - w[i]).abs() <= 4.0 * eps * w[i] + <$F>::MIN_POSITIVE * 16.0, "stored probability equals weight / sum of weights");
                } else {
                    let q = w[i] / sum;
                    chk!(src, p.to_bits() == q.to_bits(), "stored probability equals weight / sum of weights");
                }
                chk!(src, !(w[i] == 0.0) || p == 0.0, "zero weight gives zero probability");
                psum = psum + p;
                i += 1;
            }
            chk!(
                src,
                (psum - 1.0).abs() <= 4.0 * (LEN as $F) * eps,
                "stored probabilities sum to one (within 4*len*eps)"
            );
            cov!(src, w[0] == 0.0, "first weight zero");
            cov!(src, sum > 1.0, "unnormalised weights");
            cov!(src, true, "end reached");
        }
    };
}
c16_new_body!(c16_new_f32_len2, f32, 2, false, f32);
c16_new_body!(c16_new_f32_len3, f32, 3, false, f32);
c16_new_body!(c16_new_f64_len3, f64, 3, false, f64);
c16_new_body!(c16_new_f32_len2_robust, f32, 2, true, f32);
c16_new_body!(c16_new_f32_len3_robust, f32, 3, true, f32);
c16_new_body!(c16_new_f64_len3_robust, f64, 3, true, f64);

// `sample` from an arbitrary *valid* probability vector (the invariant `new` establishes):
// one inductive step, so it covers every way the vector may have been produced.
macro_rules! c16_sample_body {
    ($name:ident, $F:ty, $len:expr, $anyf:ident) => {
        pub fn $name(src: &mut Src) {
            const LEN: usize = $len;
            let eps: $F = <$F>::EPSILON;
            let mut p: [$F; LEN] = [0.0; LEN];
            let mut psum: $F = 0.0;
            let mut i = 0;
            while i < LEN {
                let x: $F = src.$anyf();
                src.assume(x >= 0.0 && x <= 1.0);
                p[i] = x;
                psum = psum + x;
                i += 1;
            }
            src.assume((psum - 1.0).abs() <= 4.0 * (LEN as $F) * eps);
            env::set_entropy(src, 4);

            #[allow(unused_mut)]
            let mut cat = Categorical::<$F>::new(vec![1.0; LEN]);
            cat.probs = p.to_vec();
            // natively the private generator is put into the state the stubbed entropy produces
            #[cfg(not(kani))]
            cat.verif_set_rng(SmallRng::from_seed(env::entropy_seed(0)));

            let mut g = SmallRng::from_seed(env::entropy_seed(0));
            let r: $F = g.random();
            let k = cat.sample();
            chk!(src, k < LEN, "sample returns an index in range");
            if k >= LEN {
                return;
            }
            chk!(src, cat.probs[k] > 0.0, "sample never returns a zero-probability category");
            // bracket with the running sums, formed left to right
            let mut cum_before: $F = 0.0;
            let mut cum_at: $F = 0.0;
            let mut total: $F = 0.0;
            let mut last_pos: usize = 0;
            let mut i = 0;
            while i < LEN {
                total = total + p[i];
                if i < k {
                    cum_before = total;
                }
                if i == k {
                    cum_at = total;
                }
                if p[i] > 0.0 {
                    last_pos = i;
                }
                i += 1;
            }
            chk!(src, k == 0 || cum_before <= r, "cumulative probability before the sampled index does not exceed the variate");
            chk!(
                src,
                r <= cum_at || (r >= total && k == last_pos),
                "variate does not exceed cumulative probability at the sampled index (rounding overshoot goes to the last positive category)"
            );
            chk!(src, cat.probs.len() == LEN, "sampling leaves the probabilities alone");
            cov!(src, r == 0.0, "uniform variate exactly 0");
            cov!(src, r >= 1.0 - eps, "uniform variate at the top of its range");
            cov!(src, k == LEN - 1, "last category sampled");
            cov!(src, k == 0, "first category sampled");
            cov!(src, LEN == 1 || p[0] == 0.0, "first probability zero (len > 1)");
            cov!(src, LEN == 1 || p[LEN - 1] == 0.0, "last probability zero (len > 1)");
            cov!(src, true, "end reached");
        }
    };
}

c16_sample_body!(c16_f32_len1, f32, 1, f32);
c16_sample_body!(c16_f32_len2, f32, 2, f32);
c16_sample_body!(c16_f32_len3, f32, 3, f32);
c16_sample_body!(c16_f32_len4, f32, 4, f32);
c16_sample_body!(c16_f64_len3, f64, 3, f64);

macro_rules! c16_logp_body {
    ($name:ident, $F:ty, $anyf:ident, $setln:ident, $lnof:ident, $lnarg:ident) => {
        pub fn $name(src: &mut Src) {
            const LEN: usize = 3;
            let mut w: [$F; LEN] = [0.0; LEN];
            let mut sum: $F = 0.0;
            let mut i = 0;
            while i < LEN {
                let x: $F = src.$anyf();
                src.assume(x >= 0.0 && x <= 16.0);
                w[i] = x;
                sum = sum + x;
                i += 1;
            }
            src.assume(sum > 0.0009765625);
            env::set_entropy(src, 4);
            env::$setln(src, 2);
            let idx = (src.u8() % 6) as usize;
            let cat = Categorical::<$F>::new(w.to_vec());
            if cat.probs.len() != LEN {
                chk!(src, false, "probs has one entry per weight");
                return;
            }
            let lp: $F = <Categorical<$F> as Discrete<$F>>::logp(&cat, idx);
            if idx < LEN {
                let expect = env::$lnof(0, cat.probs[idx]);
                chk!(src, env::$lnarg(0, cat.probs[idx]), "logp(i) takes ln of exactly the stored probability");
                chk!(src, lp.to_bits() == expect.to_bits(), "logp(i) is ln of the stored probability");
                chk!(src, !(cat.probs[idx] == 0.0) || lp == <$F>::NEG_INFINITY, "logp of a zero-probability category is -inf");
                chk!(src, lp <= 0.0 || cat.probs[idx] > 1.0, "logp of a probability is non-positive");
            } else {
                chk!(src, lp == <$F>::NEG_INFINITY, "logp of an out-of-range index is -inf");
            }
            let tp: $F = <Categorical<$F> as Target<usize, $F>>::unnorm_logp(&cat, &[idx]);
            if idx < LEN {
                let expect = env::$lnof(1, cat.probs[idx]);
                chk!(src, tp.to_bits() == expect.to_bits(), "Target::unnorm_logp([i]) is ln of the stored probability");
            } else {
                chk!(src, tp == <$F>::NEG_INFINITY, "Target::unnorm_logp of an out-of-range index is -inf");
            }
            cov!(src, idx >= LEN, "out-of-range index");
            cov!(src, idx < LEN && cat.probs[idx] == 0.0, "in-range index with zero probability");
            cov!(src, idx == LEN - 1, "last valid index");
            cov!(src, true, "end reached");
        }
    };
}

c16_logp_body!(c16_logp_f32, f32, f32, set_ln32, ln_of_f32, ln_called_with_f32);
c16_logp_body!(c16_logp_f64, f64, f64, set_ln64, ln_of_f64, ln_called_with_f64);
