//! Engine K: harness bodies over the real mini-mcmc code.
//!
//! Every harness is an ordinary function `fn(&mut Src)`.  Under `cfg(kani)` the values handed out
//! by [`Src`] are `kani::any()` (solver variables) and `chk!` is a solver assertion; natively the
//! same body runs on the concrete values of a counterexample (bytes parsed from Kani's
//! concrete-playback output) and `chk!` records which labelled obligation failed.  That is the
//! "replay before reporting" step: a solver counterexample is only reported if the very same
//! body fails natively on it, in the dev and in the release profile.
//!
//! Rule that keeps the two byte streams aligned: *stubs never call `kani::any()`*; whatever a
//! stub returns is drawn by the harness body (from `Src`) and parked in a static beforehand.

#![allow(clippy::all)]
#![allow(static_mut_refs)]

extern crate getrandom;

pub mod env;
pub mod h_c01;
#[cfg(feature = "gibbs")]
pub mod h_c05;
#[cfg(feature = "gibbs")]
pub mod h_gibbs;
pub mod h_c07;
pub mod h_c08;
pub mod h_c09;
pub mod h_c11;
pub mod h_c13;
pub mod h_c16;
pub mod h_c18;
#[cfg(kani)]
pub mod proofs;

/// Source of harness inputs: solver variables under Kani, recorded bytes natively.
pub struct Src {
    #[cfg(not(kani))]
    pub vals: Vec<Vec<u8>>,
    #[cfg(not(kani))]
    pub pos: usize,
    /// native search mode: values beyond the recorded ones are generated (boundary-biased) and recorded
    #[cfg(not(kani))]
    pub gen: Option<u64>,
    /// labels of failed obligations (native mode only)
    pub failed: Vec<&'static str>,
    /// labels of reached covers (native mode only)
    pub covered: Vec<&'static str>,
    /// an assumption was false on the replayed values (native mode only)
    pub assume_failed: bool,
    /// replay ran out of recorded values (native mode only)
    pub exhausted: bool,
}

impl Src {
    #[cfg(kani)]
    pub fn new() -> Self {
        Src { failed: Vec::new(), covered: Vec::new(), assume_failed: false, exhausted: false }
    }
    #[cfg(not(kani))]
    pub fn new(vals: Vec<Vec<u8>>) -> Self {
        Src { vals, pos: 0, gen: None, failed: Vec::new(), covered: Vec::new(), assume_failed: false, exhausted: false }
    }

    /// Search mode: every value is generated from the given seed (xorshift), biased towards boundary patterns.
    #[cfg(not(kani))]
    pub fn new_search(seed: u64) -> Self {
        Src { vals: Vec::new(), pos: 0, gen: Some(seed | 1), failed: Vec::new(), covered: Vec::new(), assume_failed: false, exhausted: false }
    }

    #[cfg(not(kani))]
    fn gen_u64(&mut self) -> u64 {
        let mut x = self.gen.unwrap();
        x ^= x << 13;
        x ^= x >> 7;
        x ^= x << 17;
        self.gen = Some(x);
        x.wrapping_mul(0x2545F4914F6CDD1D)
    }

    #[cfg(not(kani))]
    fn next_bytes<const N: usize>(&mut self) -> [u8; N] {
        let mut out = [0u8; N];
        if self.pos < self.vals.len() {
            let v = &self.vals[self.pos];
            for i in 0..N.min(v.len()) {
                out[i] = v[i];
            }
            self.pos += 1;
        } else if self.gen.is_some() {
            let r = self.gen_u64();
            let pick = r % 8;
            let word: u64 = match pick {
                0 => 0,
                1 => u64::MAX,
                2 => u64::MAX - (self.gen_u64() % 16),
                3 => self.gen_u64() % 16,
                _ => self.gen_u64(),
            };
            let b = word.to_le_bytes();
            for i in 0..N {
                out[i] = b[i % 8];
            }
            if N == 4 && pick >= 4 && pick < 6 {
                // plausible f32 values: small numbers, +-0, +-inf, NaN
                let specials: [u32; 8] = [0, 0x8000_0000, 0x3F80_0000, 0xBF80_0000, 0x7F80_0000, 0xFF80_0000, 0x7FC0_0000, 0x3F00_0000];
                out.copy_from_slice(&specials[(r >> 8) as usize % 8].to_le_bytes()[..N]);
            }
            self.vals.push(out.to_vec());
            self.pos += 1;
        } else {
            self.exhausted = true;
        }
        out
    }

    pub fn u8(&mut self) -> u8 {
        #[cfg(kani)]
        {
            kani::any()
        }
        #[cfg(not(kani))]
        {
            u8::from_le_bytes(self.next_bytes::<1>())
        }
    }
    pub fn u32(&mut self) -> u32 {
        #[cfg(kani)]
        {
            kani::any()
        }
        #[cfg(not(kani))]
        {
            u32::from_le_bytes(self.next_bytes::<4>())
        }
    }
    pub fn u64(&mut self) -> u64 {
        #[cfg(kani)]
        {
            kani::any()
        }
        #[cfg(not(kani))]
        {
            u64::from_le_bytes(self.next_bytes::<8>())
        }
    }
    pub fn bool(&mut self) -> bool {
        self.u8() & 1 == 1
    }
    pub fn f32(&mut self) -> f32 {
        f32::from_bits(self.u32())
    }
    pub fn f64(&mut self) -> f64 {
        f64::from_bits(self.u64())
    }
    pub fn i32(&mut self) -> i32 {
        self.u32() as i32
    }
    /// 32 seed bytes as four words (never `kani::any::<[u8;32]>()`, whose playback layout is
    /// an implementation detail).
    pub fn seed32(&mut self) -> [u8; 32] {
        let w = [self.u64(), self.u64(), self.u64(), self.u64()];
        words_to_seed(w)
    }
    pub fn assume(&mut self, c: bool) {
        #[cfg(kani)]
        {
            kani::assume(c);
        }
        #[cfg(not(kani))]
        {
            if !c {
                self.assume_failed = true;
            }
        }
    }
}

pub fn words_to_seed(w: [u64; 4]) -> [u8; 32] {
    let mut s = [0u8; 32];
    let mut i = 0;
    while i < 4 {
        let b = w[i].to_le_bytes();
        let mut j = 0;
        while j < 8 {
            s[i * 8 + j] = b[j];
            j += 1;
        }
        i += 1;
    }
    s
}

/// Labelled obligation.  Solver assertion under Kani; recorded natively.
#[macro_export]
macro_rules! chk {
    ($src:expr, $cond:expr, $label:literal) => {{
        let __c: bool = $cond;
        #[cfg(kani)]
        {
            let _ = &$src;
            kani::assert(__c, $label);
        }
        #[cfg(not(kani))]
        {
            if !__c {
                $src.failed.push($label);
            }
        }
    }};
}

/// Labelled reachability witness (vacuity guard).
#[macro_export]
macro_rules! cov {
    ($src:expr, $cond:expr, $label:literal) => {{
        let __c: bool = $cond;
        #[cfg(kani)]
        {
            let _ = &$src;
            // covers are compiled out in the counterexample-extraction re-run (MMK_NOCOVER)
            if option_env!("MMK_NOCOVER").is_none() {
                kani::cover(__c, $label);
            }
        }
        #[cfg(not(kani))]
        {
            if __c {
                $src.covered.push($label);
            }
        }
    }};
}

/// Required reachability: "there are inputs for which `cond` holds".  The solver must find the
/// cover SATISFIED; an unsatisfiable one is a *violation candidate* (the negation holds for all
/// inputs), confirmed natively by running the body with the real environment and never seeing it.
#[macro_export]
macro_rules! must {
    ($src:expr, $cond:expr, $label:literal) => {{
        let __c: bool = $cond;
        #[cfg(kani)]
        {
            let _ = &$src;
            kani::cover(__c, concat!("MUST: ", $label));
        }
        #[cfg(not(kani))]
        {
            if __c {
                $src.covered.push(concat!("MUST: ", $label));
            }
        }
    }};
}

/// Registry used by the native replay binary.
pub fn harness_by_name(name: &str) -> Option<fn(&mut Src)> {
    let all: &[(&str, fn(&mut Src))] = &[
        ("c16_f32_len1", h_c16::c16_f32_len1),
        ("c16_f32_len2", h_c16::c16_f32_len2),
        ("c16_f32_len3", h_c16::c16_f32_len3),
        ("c16_f32_len4", h_c16::c16_f32_len4),
        ("c16_f64_len3", h_c16::c16_f64_len3),
        ("c16_new_f32_len2", h_c16::c16_new_f32_len2),
        ("c16_new_f32_len3", h_c16::c16_new_f32_len3),
        ("c16_new_f64_len3", h_c16::c16_new_f64_len3),
        ("c16_new_f32_len2_robust", h_c16::c16_new_f32_len2_robust),
        ("c16_new_f32_len3_robust", h_c16::c16_new_f32_len3_robust),
        ("c16_new_f64_len3_robust", h_c16::c16_new_f64_len3_robust),
        ("c16_logp_f32", h_c16::c16_logp_f32),
        ("c16_logp_f64", h_c16::c16_logp_f64),
    ];
    for (n, f) in all {
        if *n == name {
            return Some(*f);
        }
    }
    #[cfg(feature = "gibbs")]
    if let Some(f) = h_c05::by_name(name).or_else(|| h_gibbs::by_name(name)) {
        return Some(f);
    }
    h_c01::by_name(name)
        .or_else(|| h_c07::by_name(name))
        .or_else(|| h_c08::by_name(name))
        .or_else(|| h_c09::by_name(name))
        .or_else(|| h_c11::by_name(name))
        .or_else(|| h_c13::by_name(name))
        .or_else(|| h_c18::by_name(name))
}
