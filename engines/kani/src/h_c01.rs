//! C01 — one Metropolis-Hastings step obeys the acceptance rule; C14 (MH part) — a candidate of
//! density -inf/NaN is never adopted.
//!
//! Real code: `<MHMarkovChain<S,F,D,Q> as MarkovChain<S>>::step`.  "For all Target/Proposal
//! implementations" is exact for one step, because a step evaluates them only at x and y: the
//! target is an arbitrary table on {x,y}, the proposal density an arbitrary (asymmetric) table on
//! {x,y}^2, the candidate an arbitrary y, all of them solver variables incl. +-inf/NaN; the chain's
//! generator state is arbitrary (so u ranges over every producible variate), `ln u` is the
//! contract stub.

use crate::env;
use crate::Src;
use crate::{chk, cov};
use mini_mcmc::core::MarkovChain;
use mini_mcmc::distributions::{Proposal, Target};
use mini_mcmc::metropolis_hastings::MHMarkovChain;
use rand::rngs::SmallRng;
use rand::{Rng, SeedableRng};

pub trait BitEq: Copy {
    fn biteq(a: Self, b: Self) -> bool;
}
impl BitEq for u8 {
    fn biteq(a: u8, b: u8) -> bool {
        a == b
    }
}
impl BitEq for i32 {
    fn biteq(a: i32, b: i32) -> bool {
        a == b
    }
}
impl BitEq for f64 {
    fn biteq(a: f64, b: f64) -> bool {
        a.to_bits() == b.to_bits()
    }
}
impl BitEq for f32 {
    fn biteq(a: f32, b: f32) -> bool {
        a.to_bits() == b.to_bits()
    }
}

fn same<S: BitEq>(a: &[S], b: &[S]) -> bool {
    if a.len() != b.len() {
        return false;
    }
    let mut i = 0;
    while i < a.len() {
        if !S::biteq(a[i], b[i]) {
            return false;
        }
        i += 1;
    }
    true
}

/// index of a point in the table: 0 = x, 1 = y (if different from x), 2 = anything else
fn idx<S: BitEq>(p: &[S], x: &[S], y: &[S]) -> usize {
    if same(p, x) {
        0
    } else if same(p, y) {
        1
    } else {
        2
    }
}

#[derive(Clone)]
pub struct TabTarget<S, F> {
    pub x: Vec<S>,
    pub y: Vec<S>,
    pub lp: [F; 3],
}
impl<S: BitEq, F: num_traits::Float> Target<S, F> for TabTarget<S, F> {
    fn unnorm_logp(&self, position: &[S]) -> F {
        self.lp[idx(position, &self.x, &self.y)]
    }
}

#[derive(Clone)]
pub struct TabProposal<S, F> {
    pub x: Vec<S>,
    pub y: Vec<S>,
    /// q[from][to] = log q(to | from)
    pub q: [[F; 3]; 3],
    pub sampled_from_x: bool,
    pub n_samples: u32,
}
impl<S: BitEq, F: num_traits::Float> Proposal<S, F> for TabProposal<S, F> {
    fn sample(&mut self, current: &[S]) -> Vec<S> {
        self.sampled_from_x = same(current, &self.x);
        self.n_samples += 1;
        self.y.clone()
    }
    fn logp(&self, from: &[S], to: &[S]) -> F {
        self.q[idx(from, &self.x, &self.y)][idx(to, &self.x, &self.y)]
    }
    fn set_seed(self, _seed: u64) -> Self {
        self
    }
}

pub const MODE_RULE: u8 = 0; // C01: exact rule
pub const MODE_ROBUST: u8 = 1; // C01: tolerant rule (stage 2 of the rounding policy)
pub const MODE_C14: u8 = 2; // C14: lp(x) finite, lp(y) in {-inf, NaN}  =>  stay

macro_rules! c01_covers {
    (c14, $src:ident, $F:ty, $lpy:ident, $bwd:ident, $fwd:ident, $iy:ident, $at_y:ident, $at_x:ident, $ratio:ident) => {
        cov!($src, $lpy.is_nan(), "candidate density NaN");
        cov!($src, $lpy == <$F>::NEG_INFINITY && $bwd == <$F>::INFINITY, "candidate density -inf with backward proposal density +inf");
        cov!($src, $lpy == <$F>::NEG_INFINITY && $fwd == <$F>::NEG_INFINITY, "candidate density -inf with forward proposal density -inf");
    };
    ($other:ident, $src:ident, $F:ty, $lpy:ident, $bwd:ident, $fwd:ident, $iy:ident, $at_y:ident, $at_x:ident, $ratio:ident) => {
        cov!($src, $iy == 1 && $at_y, "accepted");
        cov!($src, $iy == 1 && $at_x, "rejected");
        cov!($src, $ratio.is_nan(), "NaN acceptance ratio");
        cov!($src, $iy == 1 && $fwd != $bwd && $at_y, "accepted under an asymmetric proposal");
    };
}

macro_rules! c01_body {
    ($name:ident, $S:ty, $F:ty, $len:expr, $anys:ident, $anyf:ident, $setln:ident, $lnof:ident, $lnarg:ident,
     $lncalls:ident, $lnargs:ident, $mode:expr, $modetok:ident, $big:expr, $tolexp:expr) => {
        pub fn $name(src: &mut Src) {
            const LEN: usize = $len;
            let mode: u8 = $mode;
            let mut x: Vec<$S> = Vec::with_capacity(LEN);
            let mut y: Vec<$S> = Vec::with_capacity(LEN);
            let mut i = 0;
            while i < LEN {
                x.push(src.$anys());
                i += 1;
            }
            let mut i = 0;
            while i < LEN {
                y.push(src.$anys());
                i += 1;
            }
            let exact_domain = mode == MODE_ROBUST;
            let mut draw = |src: &mut Src| -> $F {
                if exact_domain {
                    match src.u8() % 8 {
                        0 => -2.0,
                        1 => -1.0,
                        2 => 0.0,
                        3 => 1.0,
                        4 => 3.0,
                        5 => <$F>::INFINITY,
                        6 => <$F>::NEG_INFINITY,
                        _ => <$F>::NAN,
                    }
                } else {
                    src.$anyf()
                }
            };
            let lp: [$F; 3] = [draw(src), draw(src), draw(src)];
            let mut q: [[$F; 3]; 3] = [[0.0; 3]; 3];
            let mut a = 0;
            while a < 3 {
                let mut b = 0;
                while b < 3 {
                    q[a][b] = draw(src);
                    b += 1;
                }
                a += 1;
            }
            let seed = src.seed32();
            env::$setln(src, 1);

            let target = TabTarget::<$S, $F> { x: x.clone(), y: y.clone(), lp };
            let proposal = TabProposal::<$S, $F> { x: x.clone(), y: y.clone(), q, sampled_from_x: false, n_samples: 0 };
            // built directly (pub fields would also do): `new` only adds an entropy-seeded generator
            env::set_entropy(src, 0);
            let mut chain = MHMarkovChain::<$S, $F, _, _>::new(target, proposal, x.clone());
            chain.rng = SmallRng::from_seed(seed);
            let mut twin = SmallRng::from_seed(seed);
            let u: $F = twin.random();

            let ix = 0usize;
            let iy = idx(&y, &x, &y);
            let lpx = lp[ix];
            let lpy = lp[iy];
            let fwd = q[ix][iy]; // log q(y | x)
            let bwd = q[iy][ix]; // log q(x | y)
            if mode == MODE_C14 {
                src.assume(lpx.is_finite());
                src.assume(lpy.is_nan() || lpy == <$F>::NEG_INFINITY);
                src.assume(iy == 1);
            }

            let ret_is_state = {
                let r = chain.step();
                same(r, &x) || same(r, &y)
            };
            let fin = chain.current_state.clone();

            let lnu = env::$lnof(0, u);
            let ratio = (lpy + bwd) - (lpx + fwd);
            let accept = lnu < ratio;
            let at_y = same(&fin, &y);
            let at_x = same(&fin, &x);

            chk!(src, at_x || at_y, "the step ends at the previous state or at the candidate, bit for bit");
            chk!(src, ret_is_state && same(chain.current_state(), &fin), "step returns the chain's new current state");
            chk!(src, chain.proposal.n_samples == 1 && chain.proposal.sampled_from_x, "exactly one candidate is drawn, from the current state");
            #[cfg(kani)]
            unsafe {
                chk!(src, env::$lncalls == 1, "the step takes the logarithm of exactly one acceptance draw");
                let arg = env::$lnargs[0];
                chk!(src, arg >= 0.0 && arg < 1.0, "the acceptance draw lies in [0,1)");
                cov!(src, arg == 0.0, "acceptance draw exactly 0");
                cov!(src, arg >= 1.0 - <$F>::EPSILON / 2.0, "acceptance draw at the largest representable value below 1");
            }
            if mode == MODE_RULE {
                if iy == 1 {
                    chk!(src, at_y == accept, "moves to y exactly when ln u < [lp(y)+q(x|y)] - [lp(x)+q(y|x)]");
                    chk!(src, accept || at_x, "a rejected step leaves the chain at x bit for bit");
                }
            } else if mode == MODE_ROBUST {
                // stage 2 of the rounding policy: the table values come from a domain on which every association of the
                // four-term sum is exact (small integers, or +-inf / NaN), so a re-associated but mathematically equal
                // formula decides identically, while ln u still ranges over every float
                if iy == 1 {
                    chk!(src, at_y == accept, "on exactly representable log-values: moves to y exactly when ln u < [lp(y)+q(x|y)] - [lp(x)+q(y|x)]");
                    chk!(src, accept || at_x, "a rejected step leaves the chain at x bit for bit");
                }
            } else {
                chk!(src, at_x, "a candidate whose log-density is -inf or NaN is never adopted");
            }
            c01_covers!($modetok, src, $F, lpy, bwd, fwd, iy, at_y, at_x, ratio);
            cov!(src, lnu == <$F>::NEG_INFINITY, "ln u = -inf");
            cov!(src, true, "end reached");
        }
    };
}

// instantiations (one harness per concrete instantiation of the generic step)
c01_body!(c01_u8_f32, u8, f32, 1, u8, f32, set_ln32, ln_of_f32, ln_called_with_f32, LN_CALLS32, LN_ARG32, MODE_RULE, rule, 1.0e30, 3.814697265625e-6);
c01_body!(c01_u8_f32_robust, u8, f32, 1, u8, f32, set_ln32, ln_of_f32, ln_called_with_f32, LN_CALLS32, LN_ARG32, MODE_ROBUST, robust, 1.0e30, 3.814697265625e-6);
c01_body!(c01_i32_f32, i32, f32, 1, i32, f32, set_ln32, ln_of_f32, ln_called_with_f32, LN_CALLS32, LN_ARG32, MODE_RULE, rule, 1.0e30, 3.814697265625e-6);
c01_body!(c01_u8_f64, u8, f64, 1, u8, f64, set_ln64, ln_of_f64, ln_called_with_f64, LN_CALLS64, LN_ARG64, MODE_RULE, rule, 1.0e300, 7.105427357601002e-15);
c01_body!(c01_u8_f64_robust, u8, f64, 1, u8, f64, set_ln64, ln_of_f64, ln_called_with_f64, LN_CALLS64, LN_ARG64, MODE_ROBUST, robust, 1.0e300, 7.105427357601002e-15);
c01_body!(c01_f64_f64_len2, f64, f64, 2, f64, f64, set_ln64, ln_of_f64, ln_called_with_f64, LN_CALLS64, LN_ARG64, MODE_RULE, rule, 1.0e300, 7.105427357601002e-15);
c01_body!(c01_f32_f32_len2, f32, f32, 2, f32, f32, set_ln32, ln_of_f32, ln_called_with_f32, LN_CALLS32, LN_ARG32, MODE_RULE, rule, 1.0e30, 3.814697265625e-6);
c01_body!(c14_mh_u8_f32, u8, f32, 1, u8, f32, set_ln32, ln_of_f32, ln_called_with_f32, LN_CALLS32, LN_ARG32, MODE_C14, c14, 1.0e30, 3.814697265625e-6);
c01_body!(c14_mh_f64_f64_len2, f64, f64, 2, f64, f64, set_ln64, ln_of_f64, ln_called_with_f64, LN_CALLS64, LN_ARG64, MODE_C14, c14, 1.0e300, 7.105427357601002e-15);

pub fn by_name(name: &str) -> Option<fn(&mut Src)> {
    Some(match name {
        "c01_u8_f32" => c01_u8_f32,
        "c01_u8_f32_robust" => c01_u8_f32_robust,
        "c01_i32_f32" => c01_i32_f32,
        "c01_u8_f64" => c01_u8_f64,
        "c01_u8_f64_robust" => c01_u8_f64_robust,
        "c01_f64_f64_len2" => c01_f64_f64_len2,
        "c01_f32_f32_len2" => c01_f32_f32_len2,
        "c14_mh_u8_f32" => c14_mh_u8_f32,
        "c14_mh_f64_f64_len2" => c14_mh_f64_f64_len2,
        _ => return None,
    })
}
