//! placeholder, filled in below
use crate::Src;
pub fn by_name(_name: &str) -> Option<fn(&mut Src)> { None }
