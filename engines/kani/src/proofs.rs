//! `#[kani::proof]` wrappers: one per harness body, with its unwind bound and stub set.
use crate::env::*;
use crate::Src;

macro_rules! proof_entropy {
    ($name:ident, $body:path, $unwind:expr) => {
        #[kani::proof]
        #[kani::unwind($unwind)]
        #[kani::stub(getrandom::fill, getrandom_fill_stub)]
        fn $name() {
            let mut s = Src::new();
            $body(&mut s);
        }
    };
}
macro_rules! proof_entropy_ln {
    ($name:ident, $body:path, $unwind:expr) => {
        #[kani::proof]
        #[kani::unwind($unwind)]
        #[kani::stub(getrandom::fill, getrandom_fill_stub)]
        #[kani::stub(f32::ln, ln_stub_f32)]
        #[kani::stub(f64::ln, ln_stub_f64)]
        fn $name() {
            let mut s = Src::new();
            $body(&mut s);
        }
    };
}

// C16: from_os_rng copies 32 bytes (unwind 33)
proof_entropy!(c16_f32_len1, crate::h_c16::c16_f32_len1, 34);
proof_entropy!(c16_f32_len2, crate::h_c16::c16_f32_len2, 34);
proof_entropy!(c16_f32_len3, crate::h_c16::c16_f32_len3, 34);
proof_entropy!(c16_f32_len4, crate::h_c16::c16_f32_len4, 34);
proof_entropy!(c16_f64_len3, crate::h_c16::c16_f64_len3, 34);
proof_entropy!(c16_new_f32_len2, crate::h_c16::c16_new_f32_len2, 34);
proof_entropy!(c16_new_f32_len3, crate::h_c16::c16_new_f32_len3, 34);
proof_entropy!(c16_new_f64_len3, crate::h_c16::c16_new_f64_len3, 34);
proof_entropy!(c16_new_f32_len2_robust, crate::h_c16::c16_new_f32_len2_robust, 34);
proof_entropy!(c16_new_f32_len3_robust, crate::h_c16::c16_new_f32_len3_robust, 34);
proof_entropy!(c16_new_f64_len3_robust, crate::h_c16::c16_new_f64_len3_robust, 34);
proof_entropy_ln!(c16_logp_f32, crate::h_c16::c16_logp_f32, 34);
proof_entropy_ln!(c16_logp_f64, crate::h_c16::c16_logp_f64, 34);
