//! `#[kani::proof]` wrappers: one per harness body, with its unwind bound and stub set.
use crate::env::*;
use crate::Src;

macro_rules! proof_entropy {
    ($name:ident, $body:path, $unwind:expr) => {
        #[kani::proof]
        #[kani::unwind($unwind)]
        #[kani::stub(getrandom::fill, getrandom_fill_stub)]
        fn $name() {
            let mut s = Src::new();
            $body(&mut s);
        }
    };
}
macro_rules! proof_entropy_ln {
    ($name:ident, $body:path, $unwind:expr) => {
        #[kani::proof]
        #[kani::unwind($unwind)]
        #[kani::stub(getrandom::fill, getrandom_fill_stub)]
        #[kani::stub(f32::ln, ln_stub_f32)]
        #[kani::stub(f64::ln, ln_stub_f64)]
        fn $name() {
            let mut s = Src::new();
            $body(&mut s);
        }
    };
}

// C16: from_os_rng copies 32 bytes (unwind 33)
proof_entropy!(c16_f32_len1, crate::h_c16::c16_f32_len1, 34);
proof_entropy!(c16_f32_len2, crate::h_c16::c16_f32_len2, 34);
proof_entropy!(c16_f32_len3, crate::h_c16::c16_f32_len3, 34);
proof_entropy!(c16_f32_len4, crate::h_c16::c16_f32_len4, 34);
proof_entropy!(c16_f64_len3, crate::h_c16::c16_f64_len3, 34);
proof_entropy!(c16_new_f32_len2, crate::h_c16::c16_new_f32_len2, 34);
proof_entropy!(c16_new_f32_len3, crate::h_c16::c16_new_f32_len3, 34);
proof_entropy!(c16_new_f64_len3, crate::h_c16::c16_new_f64_len3, 34);
proof_entropy!(c16_new_f32_len2_robust, crate::h_c16::c16_new_f32_len2_robust, 34);
proof_entropy!(c16_new_f32_len3_robust, crate::h_c16::c16_new_f32_len3_robust, 34);
proof_entropy!(c16_new_f64_len3_robust, crate::h_c16::c16_new_f64_len3_robust, 34);
proof_entropy_ln!(c16_logp_f32, crate::h_c16::c16_logp_f32, 34);
proof_entropy_ln!(c16_logp_f64, crate::h_c16::c16_logp_f64, 34);

// C01 / C14(MH): from_seed 32-byte loop (33), words_to_seed (9)
proof_entropy_ln!(c01_u8_f32, crate::h_c01::c01_u8_f32, 34);
proof_entropy_ln!(c01_u8_f32_robust, crate::h_c01::c01_u8_f32_robust, 34);
proof_entropy_ln!(c01_i32_f32, crate::h_c01::c01_i32_f32, 34);
proof_entropy_ln!(c01_u8_f64, crate::h_c01::c01_u8_f64, 34);
proof_entropy_ln!(c01_u8_f64_robust, crate::h_c01::c01_u8_f64_robust, 34);
proof_entropy_ln!(c01_f64_f64_len2, crate::h_c01::c01_f64_f64_len2, 34);
proof_entropy_ln!(c01_f32_f32_len2, crate::h_c01::c01_f32_f32_len2, 34);
proof_entropy_ln!(c14_mh_u8_f32, crate::h_c01::c14_mh_u8_f32, 34);
proof_entropy_ln!(c14_mh_f64_f64_len2, crate::h_c01::c14_mh_f64_f64_len2, 34);

macro_rules! proof_plain {
    ($name:ident, $body:path, $unwind:expr) => {
        #[kani::proof]
        #[kani::unwind($unwind)]
        fn $name() {
            let mut s = Src::new();
            $body(&mut s);
        }
    };
}
macro_rules! proof_entropy_seed {
    ($name:ident, $body:path, $unwind:expr) => {
        #[kani::proof]
        #[kani::unwind($unwind)]
        #[kani::stub(getrandom::fill, getrandom_fill_stub)]
        #[kani::stub(<rand::rngs::SmallRng as rand::SeedableRng>::seed_from_u64, seed_from_u64_stub)]
        fn $name() {
            let mut s = Src::new();
            $body(&mut s);
        }
    };
}

// C05
// harnesses behind the crate feature `gibbs` (see Cargo.toml)
macro_rules! proof_plain_gibbs {
    ($name:ident, $body:path, $unwind:expr) => {
        #[cfg(feature = "gibbs")]
        #[kani::proof]
        #[kani::unwind($unwind)]
        fn $name() {
            let mut s = Src::new();
            $body(&mut s);
        }
    };
}
macro_rules! proof_entropy_seed_gibbs {
    ($name:ident, $body:path, $unwind:expr) => {
        #[cfg(feature = "gibbs")]
        #[kani::proof]
        #[kani::unwind($unwind)]
        #[kani::stub(getrandom::fill, getrandom_fill_stub)]
        #[kani::stub(<rand::rngs::SmallRng as rand::SeedableRng>::seed_from_u64, seed_from_u64_stub)]
        fn $name() {
            let mut s = Src::new();
            $body(&mut s);
        }
    };
}
proof_plain_gibbs!(c05_u8_d4, crate::h_c05::c05_u8_d4, 8);
proof_plain_gibbs!(c05_f64_d3, crate::h_c05::c05_f64_d3, 8);
proof_plain_gibbs!(c05_u8_d6, crate::h_c05::c05_u8_d6, 8);
proof_plain_gibbs!(c05_i32_d4, crate::h_c05::c05_i32_d4, 8);

// C07 / C08 seed plumbing
proof_entropy_seed!(c07_mh_seeded_iso_n2, crate::h_c07::c07_mh_seeded_iso_n2, 34);
proof_entropy_seed!(c07_mh_seeded_iso_n3, crate::h_c07::c07_mh_seeded_iso_n3, 34);
proof_entropy_seed!(c07_mh_seeded_iso_n2_top, crate::h_c07::c07_mh_seeded_iso_n2_top, 34);
proof_entropy_seed!(c08_mh_seeded_user_n2, crate::h_c07::c08_mh_seeded_user_n2, 34);
proof_entropy_seed!(c08_mh_seeded_user_n3, crate::h_c07::c08_mh_seeded_user_n3, 34);
proof_entropy_seed!(c08_mh_unseeded_iso_n2, crate::h_c07::c08_mh_unseeded_iso_n2, 34);
proof_entropy_seed!(c08_mh_unseeded_iso_n3, crate::h_c07::c08_mh_unseeded_iso_n3, 34);
proof_entropy_seed_gibbs!(c07_gibbs_seeded_n3, crate::h_gibbs::c07_gibbs_seeded_n3, 34);
proof_entropy_seed_gibbs!(c07_gibbs_seeded_n3_top, crate::h_gibbs::c07_gibbs_seeded_n3_top, 34);

macro_rules! proof_init {
    ($name:ident, $body:path, $unwind:expr) => {
        #[kani::proof]
        #[kani::unwind($unwind)]
        #[kani::stub(getrandom::fill, getrandom_fill_stub)]
        #[kani::stub(<rand::rngs::SmallRng as rand::SeedableRng>::seed_from_u64, seed_from_u64_stub)]
        #[kani::stub(rand_distr::utils::ziggurat, ziggurat_stub)]
        fn $name() {
            let mut s = Src::new();
            $body(&mut s);
        }
    };
}

// C09
proof_plain!(c09_runchain_d2_c2_d1_m1, crate::h_c09::c09_runchain_d2_c2_d1_m1, 6);
proof_plain!(c09_runchain_d1_c0_d2_m2, crate::h_c09::c09_runchain_d1_c0_d2_m2, 6);
proof_plain!(c09_runchain_d2_c1_d0_m1, crate::h_c09::c09_runchain_d2_c1_d0_m1, 6);
proof_plain!(c09_runchain_d1_c3_d2_m0, crate::h_c09::c09_runchain_d1_c3_d2_m0, 8);
proof_plain!(c09_runchain_d2_c3_d3_m2, crate::h_c09::c09_runchain_d2_c3_d3_m2, 8);

// C13
proof_plain!(c13_tracker_f32_s3, crate::h_c13::c13_tracker_f32_s3, 6);
proof_plain!(c13_tracker_f32_s3_robust, crate::h_c13::c13_tracker_f32_s3_robust, 6);
proof_plain!(c13_tracker_f64_s2, crate::h_c13::c13_tracker_f64_s2, 6);
proof_plain!(c13_tracker_f64_s2_robust, crate::h_c13::c13_tracker_f64_s2_robust, 6);
proof_plain!(c13_tracker_i32_s2, crate::h_c13::c13_tracker_i32_s2, 6);
proof_plain!(c13_multi_f32, crate::h_c13::c13_multi_f32, 6);
proof_plain!(c13_multi_f32_robust, crate::h_c13::c13_multi_f32_robust, 6);

// C18
proof_init!(c18_seeded_f64_1_2x2, crate::h_c18::c18_seeded_f64_1_2x2, 34);
proof_init!(c18_seeded_f32_1_2x2, crate::h_c18::c18_seeded_f32_1_2x2, 34);
proof_init!(c18_seeded_f64_2_3x1, crate::h_c18::c18_seeded_f64_2_3x1, 34);
proof_init!(c18_seeded_f64_2_3x3, crate::h_c18::c18_seeded_f64_2_3x3, 34);
proof_init!(c18_seeded_f32_0_1x2, crate::h_c18::c18_seeded_f32_0_1x2, 34);
proof_init!(c18_det_f64_2x2, crate::h_c18::c18_det_f64_2x2, 34);
proof_init!(c18_det_f32_2x2, crate::h_c18::c18_det_f32_2x2, 34);
proof_init!(c18_unseeded_f64_2x2, crate::h_c18::c18_unseeded_f64_2x2, 34);
proof_init!(c18_unseeded_f32_3x1, crate::h_c18::c18_unseeded_f32_3x1, 34);

// C11 summary
macro_rules! proof_sqrt {
    ($name:ident, $body:path, $unwind:expr) => {
        #[kani::proof]
        #[kani::unwind($unwind)]
        #[kani::stub(f32::sqrt, sqrt_stub_f32)]
        #[kani::stub(f32::mul_add, mul_add_stub_f32)]
        fn $name() {
            let mut s = Src::new();
            $body(&mut s);
        }
    };
}
proof_sqrt!(c11_basic_fin_n3, crate::h_c11::c11_basic_fin_n3, 8);
proof_sqrt!(c11_basic_fin_n4, crate::h_c11::c11_basic_fin_n4, 8);
proof_sqrt!(c11_basic_any_n3, crate::h_c11::c11_basic_any_n3, 8);
