//! C05 — one Gibbs step asks the conditional for every coordinate exactly once, each time passing
//! the state in which earlier answers are already written, writes the answer to that coordinate
//! only, and changes nothing else.  Real code: `<GibbsMarkovChain<S,D> as MarkovChain<S>>::step`.
//! "Any Conditional": every answer is a solver variable, the conditional records what it is asked.

use crate::h_c01::BitEq;
use crate::Src;
use crate::{chk, cov};
use mini_mcmc::core::MarkovChain;
use mini_mcmc::distributions::Conditional;
use mini_mcmc::gibbs::GibbsMarkovChain;
use rand::rngs::SmallRng;
use rand::SeedableRng;

pub const MAXD: usize = 6;

#[derive(Clone)]
pub struct RecCond<S: Copy> {
    pub answers: [S; MAXD],
    pub calls: usize,
    pub asked: [u32; MAXD],
    pub bad_index: bool,
    pub given_ok: bool,
    pub given_len_ok: bool,
    pub model: [S; MAXD],
    pub d: usize,
}

impl<S: BitEq> Conditional<S> for RecCond<S> {
    fn sample(&mut self, index: usize, given: &[S]) -> S {
        if given.len() != self.d {
            self.given_len_ok = false;
        } else {
            let mut i = 0;
            while i < self.d {
                if !S::biteq(given[i], self.model[i]) {
                    self.given_ok = false;
                }
                i += 1;
            }
        }
        let a = self.answers[if self.calls < MAXD { self.calls } else { MAXD - 1 }];
        if index < self.d {
            self.asked[index] += 1;
            self.model[index] = a;
        } else {
            self.bad_index = true;
        }
        self.calls += 1;
        a
    }
}

macro_rules! c05_body {
    ($name:ident, $S:ty, $anys:ident, $zero:expr, $dmax:expr) => {
        pub fn $name(src: &mut Src) {
            let d = (src.u8() as usize) % ($dmax + 1);
            src.assume(d >= 1);
            let mut init: [$S; MAXD] = [$zero; MAXD];
            let mut answers: [$S; MAXD] = [$zero; MAXD];
            let mut i = 0;
            while i < $dmax {
                init[i] = src.$anys();
                answers[i] = src.$anys();
                i += 1;
            }
            let mut state: Vec<$S> = Vec::with_capacity(MAXD);
            let mut i = 0;
            while i < d {
                state.push(init[i]);
                i += 1;
            }
            let cond = RecCond::<$S> {
                answers,
                calls: 0,
                asked: [0; MAXD],
                bad_index: false,
                given_ok: true,
                given_len_ok: true,
                model: init,
                d,
            };
            // (struct literal: the constructor draws its default seed from rand::rng(), which Kani cannot compile; this module is
            // behind the crate feature `gibbs` so that a tree on which the literal no longer compiles only loses these harnesses)
            let mut chain = GibbsMarkovChain { target: cond, current_state: state, seed: 0, rng: SmallRng::from_seed([7u8; 32]) };
            // two consecutive sweeps: whatever the first one leaves behind must not change what the second one does
            let mut sweep = 0;
            while sweep < 2 {
                if sweep == 1 {
                    let mut answers2: [$S; MAXD] = [$zero; MAXD];
                    let mut i = 0;
                    while i < $dmax {
                        answers2[i] = src.$anys();
                        i += 1;
                    }
                    chain.target.answers = answers2;
                    chain.target.calls = 0;
                    chain.target.asked = [0; MAXD];
                }
                let ret_ok = {
                    let r = chain.step();
                    r.len() == d
                };
                let c = &chain.target;
                chk!(src, ret_ok && chain.current_state.len() == d, "the state keeps its length");
                chk!(src, c.calls == d, "the conditional is asked exactly once per coordinate");
                chk!(src, !c.bad_index, "only coordinates of the state are asked for");
                let mut each_once = true;
                let mut i = 0;
                while i < d {
                    if c.asked[i] != 1 {
                        each_once = false;
                    }
                    i += 1;
                }
                chk!(src, each_once, "every coordinate is refreshed exactly once");
                chk!(src, c.given_len_ok && c.given_ok, "each request passes the current state with all earlier answers already written");
                let mut fin_ok = chain.current_state.len() == d;
                let mut i = 0;
                while i < d && fin_ok {
                    if !<$S as BitEq>::biteq(chain.current_state[i], c.model[i]) {
                        fin_ok = false;
                    }
                    i += 1;
                }
                chk!(src, fin_ok, "the final state holds each answer at its coordinate and nothing else changed");
                chk!(src, chain.current_state().len() == d, "current_state reports the new state");
                sweep += 1;
            }
            cov!(src, d == $dmax, "largest dimension");
            cov!(src, d == 1, "dimension 1");
            cov!(src, true, "end reached");
        }
    };
}

c05_body!(c05_u8_d4, u8, u8, 0u8, 4);
c05_body!(c05_f64_d3, f64, f64, 0.0f64, 3);
c05_body!(c05_u8_d6, u8, u8, 0u8, 6);
c05_body!(c05_i32_d4, i32, i32, 0i32, 4);

pub fn by_name(name: &str) -> Option<fn(&mut Src)> {
    Some(match name {
        "c05_u8_d4" => c05_u8_d4,
        "c05_f64_d3" => c05_f64_d3,
        "c05_u8_d6" => c05_u8_d6,
        "c05_i32_d4" => c05_i32_d4,
        _ => return None,
    })
}
