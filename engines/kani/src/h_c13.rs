//! C13 (Engine K part) — `ChainTracker::{new, step, stats}` and `MultiChainTracker::step` in exact
//! f32 arithmetic: the count, the exponential moving average of "state differs from previous
//! state" (weight 0.01), its range, and absence of panics on any f32/f64/i32 states incl. NaN.
//! (Mean/variance formulas are decided by the MIR engine over the reals.)

use crate::Src;
use crate::{chk, cov};
use mini_mcmc::stats::{ChainTracker, MultiChainTracker};

const ALPHA: f32 = 0.01;

macro_rules! c13_tracker_body {
    ($name:ident, $T:ty, $anyt:ident, $tof32:expr, $steps:expr, $robust:expr) => {
        pub fn $name(src: &mut Src) {
            const P: usize = 2;
            const STEPS: usize = $steps;
            let robust: bool = $robust;
            let tof32 = $tof32;
            let init: [$T; P] = [src.$anyt(), src.$anyt()];
            let mut tr = ChainTracker::new(P, &init);
            let mut prev: [f32; P] = [tof32(init[0]), tof32(init[1])];
            let mut p_model: f32 = -1.0;
            let mut k = 0;
            while k < STEPS {
                let x: [$T; P] = [src.$anyt(), src.$anyt()];
                let xf: [f32; P] = [tof32(x[0]), tof32(x[1])];
                let r = tr.step(&x);
                chk!(src, r.is_ok(), "step succeeds on a state of the right length");
                let differs = xf[0] != prev[0] || xf[1] != prev[1];
                let ind: f32 = if differs { 1.0 } else { 0.0 };
                let st = tr.stats();
                chk!(src, st.n == (k as u64) + 1, "n counts the updates");
                chk!(src, st.p_accept >= 0.0 && st.p_accept <= 1.0, "the acceptance rate lies in [0,1]");
                if k == 0 {
                    chk!(src, differs || st.p_accept == 0.0, "first update without a move reports acceptance rate 0");
                    chk!(src, !differs || st.p_accept > 0.0, "first update with a move reports a positive acceptance rate");
                } else {
                    let want = (1.0 - ALPHA) * p_model + ALPHA * ind;
                    if robust {
                        chk!(src, (st.p_accept - want).abs() <= 1.0e-6, "acceptance rate is the EMA (weight 0.01) of the move indicator");
                    } else {
                        chk!(src, st.p_accept == want, "acceptance rate is the EMA (weight 0.01) of the move indicator");
                    }
                }
                chk!(src, st.mean.len() == P && st.sm2.len() == P, "statistics have one entry per parameter");
                p_model = st.p_accept;
                prev = xf;
                k += 1;
            }
            cov!(src, p_model == 1.0, "acceptance rate 1");
            cov!(src, p_model == 0.0, "acceptance rate 0");
            cov!(src, prev[0].is_nan(), "NaN state");
            cov!(src, true, "end reached");
        }
    };
}
c13_tracker_body!(c13_tracker_f32_s3, f32, f32, |v: f32| v, 2, false);
c13_tracker_body!(c13_tracker_f32_s3_robust, f32, f32, |v: f32| v, 2, true);
c13_tracker_body!(c13_tracker_f64_s2, f64, f64, |v: f64| v as f32, 2, false);
c13_tracker_body!(c13_tracker_f64_s2_robust, f64, f64, |v: f64| v as f32, 2, true);

/// integer states: conversion to f32 cannot fail, count and range as above
pub fn c13_tracker_i32_s2(src: &mut Src) {
    const P: usize = 2;
    let init: [i32; P] = [src.i32(), src.i32()];
    let mut tr = ChainTracker::new(P, &init);
    let mut k = 0;
    while k < 2 {
        let x: [i32; P] = [src.i32(), src.i32()];
        let r = tr.step(&x);
        chk!(src, r.is_ok(), "step succeeds on a state of the right length");
        let st = tr.stats();
        chk!(src, st.n == (k as u64) + 1, "n counts the updates");
        chk!(src, st.p_accept >= 0.0 && st.p_accept <= 1.0, "the acceptance rate lies in [0,1]");
        k += 1;
    }
    cov!(src, true, "end reached");
}

macro_rules! c13_multi_body {
    ($name:ident, $robust:expr) => {
        pub fn $name(src: &mut Src) {
            const C: usize = 2;
            const P: usize = 2;
            let robust: bool = $robust;
            let mut tr = MultiChainTracker::new(C, P);
            let mut prev: [f32; C * P] = [0.0; C * P];
            let mut p_model: f32 = 0.0;
            let mut k = 0;
            while k < 2 {
                let x: [f32; C * P] = [src.f32(), src.f32(), src.f32(), src.f32()];
                let r = tr.step(&x);
                chk!(src, r.is_ok(), "step succeeds on states of the right shape");
                let mut c = 0;
                while c < C {
                    let differs = x[c * P] != prev[c * P] || x[c * P + 1] != prev[c * P + 1];
                    let ind: f32 = if differs { 1.0 } else { 0.0 };
                    p_model = (1.0 - ALPHA) * p_model + ALPHA * ind;
                    c += 1;
                }
                if robust {
                    chk!(src, (tr.p_accept - p_model).abs() <= 1.0e-6, "multi-chain acceptance rate: one EMA update (weight 0.01) per chain row");
                } else {
                    chk!(src, tr.p_accept == p_model, "multi-chain acceptance rate: one EMA update (weight 0.01) per chain row");
                }
                chk!(src, tr.p_accept >= 0.0 && tr.p_accept <= 1.0, "the acceptance rate lies in [0,1]");
                prev = x;
                k += 1;
            }
            cov!(src, tr.p_accept > 0.0, "some move");
            cov!(src, true, "end reached");
        }
    };
}
c13_multi_body!(c13_multi_f32, false);
c13_multi_body!(c13_multi_f32_robust, true);

pub fn by_name(name: &str) -> Option<fn(&mut Src)> {
    Some(match name {
        "c13_tracker_f32_s3" => c13_tracker_f32_s3,
        "c13_tracker_f32_s3_robust" => c13_tracker_f32_s3_robust,
        "c13_tracker_f64_s2" => c13_tracker_f64_s2,
        "c13_tracker_f64_s2_robust" => c13_tracker_f64_s2_robust,
        "c13_tracker_i32_s2" => c13_tracker_i32_s2,
        "c13_multi_f32" => c13_multi_f32,
        "c13_multi_f32_robust" => c13_multi_f32_robust,
        _ => return None,
    })
}
