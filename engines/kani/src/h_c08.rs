//! C08 harnesses live in h_c07.rs (shared seed-plumbing scaffolding).
use crate::Src;
pub fn by_name(_name: &str) -> Option<fn(&mut Src)> {
    None
}
