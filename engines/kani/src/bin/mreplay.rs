//! Native evaluation of the real mini-mcmc functions on one concrete case (Engine M replay).
//! `mreplay <case.json>` prints one JSON line with the outputs; a panic is reported by the exit
//! status and stderr.  The comparison with the specification is done by the Python side.
#[cfg(kani)]
fn main() {}

#[cfg(not(kani))]
mod imp {
    use mini_mcmc::distributions::{DiffableGaussian2D, Gaussian2D, IsotropicGaussian, Normalized, Proposal, Target};
    use mini_mcmc::stats::{basic_stats, collect_rhat, split_rhat_mean_ess, ChainStats, ChainTracker, MultiChainTracker};
    use ndarray::{arr1, arr2, Array1, Array3};
    use serde_json::{json, Value};

    fn f64s(v: &Value) -> Vec<f64> {
        v.as_array().map(|a| a.iter().map(|x| x.as_f64().unwrap_or(f64::NAN)).collect()).unwrap_or_default()
    }
    fn f32s(v: &Value) -> Vec<f32> {
        f64s(v).into_iter().map(|x| x as f32).collect()
    }
    fn num(x: f64) -> Value {
        if x.is_finite() {
            json!(x)
        } else if x.is_nan() {
            json!("NaN")
        } else if x > 0.0 {
            json!("inf")
        } else {
            json!("-inf")
        }
    }
    fn nums32(v: &[f32]) -> Value {
        Value::Array(v.iter().map(|x| num(*x as f64)).collect())
    }

    pub fn run(case: &Value) -> Value {
        let kind = case["case"].as_str().unwrap_or("");
        match kind {
            "iso_logp" => {
                let std = case["std"].as_f64().unwrap();
                let from = f64s(&case["from"]);
                let to = f64s(&case["to"]);
                let p64 = IsotropicGaussian::<f64>::new(std);
                let p32 = IsotropicGaussian::<f32>::new(std as f32);
                let from32: Vec<f32> = from.iter().map(|x| *x as f32).collect();
                let to32: Vec<f32> = to.iter().map(|x| *x as f32).collect();
                json!({
                    "logp_f64": num(p64.logp(&from, &to)),
                    "logp_f64_rev": num(p64.logp(&to, &from)),
                    "logp_f32": num(p32.logp(&from32, &to32) as f64),
                    "unnorm_f64": num(Target::<f64, f64>::unnorm_logp(&p64, &to)),
                })
            }
            "gaussian2d" => {
                let mean = f64s(&case["mean"]);
                let cov = f64s(&case["cov"]);
                let x = f64s(&case["x"]);
                let g = Gaussian2D::<f64> { mean: arr1(&[mean[0], mean[1]]), cov: arr2(&[[cov[0], cov[1]], [cov[2], cov[3]]]) };
                json!({"logp": num(g.logp(&x)), "unnorm": num(g.unnorm_logp(&x))})
            }
            "diffable_new" => {
                let mean = f64s(&case["mean"]);
                let cov = f64s(&case["cov"]);
                let g = DiffableGaussian2D::<f64>::new([mean[0], mean[1]], [[cov[0], cov[1]], [cov[2], cov[3]]]);
                json!({
                    "inv_cov": [num(g.inv_cov[0][0]), num(g.inv_cov[0][1]), num(g.inv_cov[1][0]), num(g.inv_cov[1][1])],
                    "logdet_cov": num(g.logdet_cov), "norm_const": num(g.norm_const)})
            }
            "split_rhat_ess" => {
                let shape: Vec<usize> = case["shape"].as_array().unwrap().iter().map(|x| x.as_u64().unwrap() as usize).collect();
                let data = f32s(&case["data"]);
                let arr = Array3::from_shape_vec((shape[0], shape[1], shape[2]), data).unwrap();
                let (rhat, ess) = split_rhat_mean_ess(arr.view());
                json!({"rhat": nums32(rhat.as_slice().unwrap()), "ess": nums32(ess.as_slice().unwrap())})
            }
            "collect_rhat" => {
                let chains: Vec<ChainStats> = case["chains"].as_array().unwrap().iter().map(|c| ChainStats {
                    n: c["n"].as_u64().unwrap(),
                    p_accept: 0.5,
                    mean: Array1::from(f32s(&c["mean"])),
                    sm2: Array1::from(f32s(&c["sm2"])),
                }).collect();
                let refs: Vec<&ChainStats> = chains.iter().collect();
                let r = collect_rhat(&refs);
                json!({"rhat": nums32(r.as_slice().unwrap())})
            }
            "trackers" => {
                // the same draws fed to per-chain trackers and to the multi-chain tracker
                let n_chains = case["n_chains"].as_u64().unwrap() as usize;
                let n_params = case["n_params"].as_u64().unwrap() as usize;
                let steps: Vec<Vec<f32>> = case["steps"].as_array().unwrap().iter().map(f32s).collect();
                let init = f32s(&case["init"]);
                let mut multi = MultiChainTracker::new(n_chains, n_params);
                let mut singles: Vec<ChainTracker> = (0..n_chains)
                    .map(|c| ChainTracker::new(n_params, &init[c * n_params..(c + 1) * n_params]))
                    .collect();
                let mut p_hist: Vec<Vec<f64>> = vec![Vec::new(); n_chains];
                for s in steps.iter() {
                    multi.step(s.as_slice()).unwrap();
                    for c in 0..n_chains {
                        singles[c].step(&s[c * n_params..(c + 1) * n_params]).unwrap();
                        p_hist[c].push(singles[c].stats().p_accept as f64);
                    }
                }
                let stats: Vec<ChainStats> = singles.iter().map(|t| t.stats()).collect();
                let refs: Vec<&ChainStats> = stats.iter().collect();
                let r1 = collect_rhat(&refs);
                let r2 = multi.rhat().unwrap();
                json!({
                    "collect_rhat": nums32(r1.as_slice().unwrap()),
                    "multi_rhat": nums32(r2.as_slice().unwrap()),
                    "multi_p_accept": num(multi.p_accept as f64),
                    "p_hist": p_hist,
                    "chains": stats.iter().map(|s| json!({"n": s.n, "p_accept": num(s.p_accept as f64),
                        "mean": nums32(s.mean.as_slice().unwrap()), "sm2": nums32(s.sm2.as_slice().unwrap())})).collect::<Vec<_>>(),
                })
            }
            "basic_stats" => {
                let data = f32s(&case["data"]);
                let st = basic_stats("x", Array1::from(data));
                json!({"min": num(st.min as f64), "max": num(st.max as f64), "median": num(st.median as f64),
                       "mean": num(st.mean as f64), "std": num(st.std as f64)})
            }
            _ => crate::imp2::run(case),
        }
    }
}

#[cfg(not(kani))]
mod imp2 {
    use burn::backend::{Autodiff, NdArray};
    use burn::prelude::*;
    use mini_mcmc::distributions::DiffableGaussian2D;
    use mini_mcmc::hmc::HMC;
    use serde_json::{json, Value};

    type B32 = Autodiff<NdArray<f32>>;

    fn hmc_run(seed: u64, n_collect: usize) -> Vec<f32> {
        let target = DiffableGaussian2D::new([0.0_f32, 1.0], [[4.0, 2.0], [2.0, 3.0]]);
        let mut s = HMC::<f32, B32, DiffableGaussian2D<f32>>::new(target, vec![vec![0.5_f32, -0.5]; 2], 0.1, 3).set_seed(seed);
        let out: Tensor<B32, 3> = s.run(n_collect, 0);
        out.to_data().to_vec::<f32>().unwrap()
    }

    pub fn run(case: &Value) -> Value {
        match case["case"].as_str().unwrap_or("") {
            "hmc_same_seed_twice" => {
                let seed = case["seed"].as_u64().unwrap_or(42);
                let n = case["n_collect"].as_u64().unwrap_or(3) as usize;
                let a = hmc_run(seed, n);
                let b = hmc_run(seed, n);
                json!({"equal": a.iter().zip(b.iter()).all(|(x, y)| x.to_bits() == y.to_bits()), "first": a, "second": b})
            }
            _ => json!({"error": format!("unknown case {}", case["case"])}),
        }
    }
}

#[cfg(not(kani))]
fn main() {
    let args: Vec<String> = std::env::args().collect();
    let text = std::fs::read_to_string(&args[1]).expect("read case");
    let case: serde_json::Value = serde_json::from_str(&text).expect("parse case");
    let out = imp::run(&case);
    println!("{}", out);
}
