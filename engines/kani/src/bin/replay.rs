//! Native replay of a solver counterexample: `replay <harness> <file.json>`.
//! The JSON holds `{"harness": "...", "vals": [[bytes],…]}` (Kani concrete-playback values, in
//! `kani::any()` order).  Prints one line of JSON with the failed obligation labels.
#[cfg(not(kani))]
use std::io::Read;

#[cfg(kani)]
fn main() {}

#[cfg(not(kani))]
fn parse_vals(text: &str) -> Vec<Vec<u8>> {
    // minimal parser for "vals": [[1,2],[3]] — no external JSON crate is needed
    let start = text.find("\"vals\"").expect("vals key");
    let rest = &text[start..];
    let open = rest.find('[').expect("[");
    let mut depth = 0i32;
    let mut out: Vec<Vec<u8>> = Vec::new();
    let mut cur: Vec<u8> = Vec::new();
    let mut num = String::new();
    for ch in rest[open..].chars() {
        match ch {
            '[' => {
                depth += 1;
                if depth == 2 {
                    cur = Vec::new();
                }
            }
            ']' => {
                if !num.is_empty() {
                    cur.push(num.parse::<u16>().unwrap() as u8);
                    num.clear();
                }
                if depth == 2 {
                    out.push(cur.clone());
                }
                depth -= 1;
                if depth == 0 {
                    break;
                }
            }
            ',' => {
                if !num.is_empty() {
                    cur.push(num.parse::<u16>().unwrap() as u8);
                    num.clear();
                }
            }
            c if c.is_ascii_digit() => num.push(c),
            _ => {}
        }
    }
    out
}

#[cfg(not(kani))]
fn main() {
    let args: Vec<String> = std::env::args().collect();
    if args.len() < 3 {
        eprintln!("usage: replay <harness> <file.json>");
        std::process::exit(2);
    }
    if args[2] == "--search" {
        // native search for a concrete witness of an obligation the solver found violable:
        // replay <harness> --search <tries> <seed> [label]
        let tries: u64 = args.get(3).and_then(|s| s.parse().ok()).unwrap_or(100000);
        let seed: u64 = args.get(4).and_then(|s| s.parse().ok()).unwrap_or(1);
        let f = match mmk::harness_by_name(&args[1]) {
            Some(f) => f,
            None => {
                eprintln!("unknown harness {}", args[1]);
                std::process::exit(2);
            }
        };
        std::panic::set_hook(Box::new(|_| {}));
        for i in 0..tries {
            let mut src = mmk::Src::new_search(seed.wrapping_mul(0x9E3779B97F4A7C15).wrapping_add(i.wrapping_mul(0xD1B54A32D192ED03)));
            let res = std::panic::catch_unwind(std::panic::AssertUnwindSafe(|| {
                f(&mut src);
            }));
            let panicked = res.is_err();
            if src.assume_failed {
                continue;
            }
            if !src.failed.is_empty() || panicked {
                let mut failed: Vec<String> = src.failed.iter().map(|s| s.to_string()).collect();
                if panicked {
                    failed.push("panic".to_string());
                }
                let vals: Vec<String> = src.vals.iter().map(|v| format!("[{}]", v.iter().map(|b| b.to_string()).collect::<Vec<_>>().join(","))).collect();
                let fl: Vec<String> = failed.iter().map(|s| format!("\"{}\"", s.replace('\\', "\\\\").replace('"', "\\\""))).collect();
                println!("{{\"harness\":\"{}\",\"found\":true,\"tries\":{},\"failed\":[{}],\"vals\":[{}]}}", args[1], i + 1, fl.join(","), vals.join(","));
                return;
            }
        }
        println!("{{\"harness\":\"{}\",\"found\":false,\"tries\":{}}}", args[1], tries);
        return;
    }
    let mut text = String::new();
    std::fs::File::open(&args[2]).expect("open replay file").read_to_string(&mut text).unwrap();
    let vals = parse_vals(&text);
    let f = match mmk::harness_by_name(&args[1]) {
        Some(f) => f,
        None => {
            eprintln!("unknown harness {}", args[1]);
            std::process::exit(2);
        }
    };
    let mut src = mmk::Src::new(vals);
    let res = std::panic::catch_unwind(std::panic::AssertUnwindSafe(|| {
        f(&mut src);
    }));
    let mut failed: Vec<String> = src.failed.iter().map(|s| s.to_string()).collect();
    if let Err(e) = res {
        let msg = if let Some(s) = e.downcast_ref::<&str>() {
            s.to_string()
        } else if let Some(s) = e.downcast_ref::<String>() {
            s.clone()
        } else {
            "panic".to_string()
        };
        failed.push(format!("panic: {}", msg));
    }
    let esc = |s: &String| s.replace('\\', "\\\\").replace('"', "\\\"").replace('\n', " ");
    let fl: Vec<String> = failed.iter().map(|s| format!("\"{}\"", esc(s))).collect();
    let cv: Vec<String> = src.covered.iter().map(|s| format!("\"{}\"", esc(&s.to_string()))).collect();
    println!(
        "{{\"harness\":\"{}\",\"failed\":[{}],\"covered\":[{}],\"assume_failed\":{},\"exhausted\":{}}}",
        args[1],
        fl.join(","),
        cv.join(","),
        src.assume_failed,
        src.exhausted
    );
}
