//! C11 (summary part, Engine K) — `stats::basic_stats`: with finite inputs min/max are the true
//! extremes and the median is a middle order statistic; NaN inputs never make it fail.
use crate::Src;
use crate::{chk, cov};
use mini_mcmc::stats::basic_stats;
use ndarray::Array1;

macro_rules! c11_basic {
    ($name:ident, $n:expr, $finite:expr) => {
        pub fn $name(src: &mut Src) {
            const N: usize = $n;
            let mut v: [f32; N] = [0.0; N];
            let mut i = 0;
            while i < N {
                v[i] = src.f32();
                if $finite {
                    src.assume(v[i].is_finite());
                }
                i += 1;
            }
            crate::env::set_sqrt32(src, 2);
            let st = basic_stats("x", Array1::from(v.to_vec()));
            if $finite {
                let mut mn = v[0];
                let mut mx = v[0];
                let mut i = 1;
                while i < N {
                    if v[i] < mn {
                        mn = v[i];
                    }
                    if v[i] > mx {
                        mx = v[i];
                    }
                    i += 1;
                }
                chk!(src, st.min == mn, "min is the smallest value");
                chk!(src, st.max == mx, "max is the largest value");
                // middle order statistic: at least floor(N/2) values on either side (ties allowed)
                let mut le = 0;
                let mut ge = 0;
                let mut i = 0;
                while i < N {
                    if v[i] <= st.median {
                        le += 1;
                    }
                    if v[i] >= st.median {
                        ge += 1;
                    }
                    i += 1;
                }
                chk!(src, le >= (N + 1) / 2 && ge >= N / 2 && le + ge >= N + 1, "median is a middle order statistic of the values");
            }
            cov!(src, st.min.is_nan() || st.max.is_nan() || st.median.is_nan() || $finite, "NaN reaches the summary");
            cov!(src, true, "end reached");
        }
    };
}
c11_basic!(c11_basic_fin_n3, 3, true);
c11_basic!(c11_basic_fin_n4, 4, true);
c11_basic!(c11_basic_any_n3, 3, false);

pub fn by_name(name: &str) -> Option<fn(&mut Src)> {
    Some(match name {
        "c11_basic_fin_n3" => c11_basic_fin_n3,
        "c11_basic_fin_n4" => c11_basic_fin_n4,
        "c11_basic_any_n3" => c11_basic_any_n3,
        _ => return None,
    })
}
