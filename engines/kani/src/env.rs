//! Environment of the harnesses: OS entropy, transcendental functions, seeding and the normal
//! sampler kernel, as *nondeterministic stubs whose answers are drawn by the harness*.
//!
//! Each stub is listed in the evidence of the checks that use it.  None calls `kani::any()`.

use rand::rngs::SmallRng;
use rand::SeedableRng;

// ------------------------------------------------------------------------------------------
// OS entropy (`getrandom::fill`): arbitrary bytes chosen by the harness.
// ------------------------------------------------------------------------------------------
pub const ENTROPY_WORDS: usize = 24;
pub static mut ENTROPY: [u64; ENTROPY_WORDS] = [0; ENTROPY_WORDS];
pub static mut ENTROPY_POS: usize = 0;
pub static mut ENTROPY_CALLS: usize = 0;
/// when set, any entropy request is an obligation failure (purity of seeded code)
pub static mut ENTROPY_FORBIDDEN: bool = false;
pub static mut ENTROPY_FORBIDDEN_HIT: bool = false;

pub fn set_entropy(src: &mut crate::Src, words: usize) {
    unsafe {
        ENTROPY_POS = 0;
        ENTROPY_CALLS = 0;
        let mut i = 0;
        while i < words && i < ENTROPY_WORDS {
            ENTROPY[i] = src.u64();
            i += 1;
        }
    }
}

/// The 32 bytes the k-th 32-byte entropy request receives (k = 0,1,…).
pub fn entropy_seed(k: usize) -> [u8; 32] {
    unsafe {
        crate::words_to_seed([
            ENTROPY[(4 * k) % ENTROPY_WORDS],
            ENTROPY[(4 * k + 1) % ENTROPY_WORDS],
            ENTROPY[(4 * k + 2) % ENTROPY_WORDS],
            ENTROPY[(4 * k + 3) % ENTROPY_WORDS],
        ])
    }
}

/// Stub for `getrandom::fill` (rand's `OsRng` → `SeedableRng::from_os_rng`).
#[cfg(kani)]
pub fn getrandom_fill_stub(dest: &mut [u8]) -> Result<(), getrandom::Error> {
    unsafe {
        if ENTROPY_FORBIDDEN {
            ENTROPY_FORBIDDEN_HIT = true;
        }
        let n = dest.len();
        let mut i = 0;
        while i < n {
            let w = ENTROPY[(ENTROPY_POS + i / 8) % ENTROPY_WORDS];
            dest[i] = (w >> (8 * (i % 8))) as u8;
            i += 1;
        }
        ENTROPY_POS += (n + 7) / 8;
        ENTROPY_CALLS += 1;
    }
    Ok(())
}

// ------------------------------------------------------------------------------------------
// ln: contract function.  CBMC's own model of `log` is loose and non-functional (probed), so
// the harness draws the result, and the stub assumes ln's contract on the argument it sees.
// ------------------------------------------------------------------------------------------
pub const LN_SLOTS: usize = 6;
pub static mut LN_ARG32: [f32; LN_SLOTS] = [0.0; LN_SLOTS];
pub static mut LN_RET32: [f32; LN_SLOTS] = [0.0; LN_SLOTS];
pub static mut LN_CALLS32: usize = 0;
pub static mut LN_ARG64: [f64; LN_SLOTS] = [0.0; LN_SLOTS];
pub static mut LN_RET64: [f64; LN_SLOTS] = [0.0; LN_SLOTS];
pub static mut LN_CALLS64: usize = 0;

pub fn set_ln32(src: &mut crate::Src, slots: usize) {
    unsafe {
        LN_CALLS32 = 0;
        let mut i = 0;
        while i < slots && i < LN_SLOTS {
            LN_RET32[i] = src.f32();
            i += 1;
        }
    }
}
pub fn set_ln64(src: &mut crate::Src, slots: usize) {
    unsafe {
        LN_CALLS64 = 0;
        let mut i = 0;
        while i < slots && i < LN_SLOTS {
            LN_RET64[i] = src.f64();
            i += 1;
        }
    }
}

/// Contract of ln: NaN for NaN/negative, −∞ at 0, +∞ at +∞, sign by comparison with 1, and
/// functional consistency / monotonicity with respect to the earlier calls of this run.
#[cfg(kani)]
pub fn ln_stub_f32(x: f32) -> f32 {
    unsafe {
        let k = LN_CALLS32;
        kani::assume(k < LN_SLOTS);
        let r = LN_RET32[k];
        if x.is_nan() || x < 0.0 {
            kani::assume(r.is_nan());
        } else if x == 0.0 {
            kani::assume(r == f32::NEG_INFINITY);
        } else if x == f32::INFINITY {
            kani::assume(r == f32::INFINITY);
        } else {
            kani::assume(r.is_finite());
            kani::assume((x < 1.0) == (r < 0.0));
            kani::assume((x == 1.0) == (r == 0.0));
            let mut j = 0;
            while j < k {
                let (a, b) = (LN_ARG32[j], LN_RET32[j]);
                if a > 0.0 && a.is_finite() {
                    kani::assume(!(a == x) || b == r);
                    kani::assume(!(a < x) || b <= r);
                    kani::assume(!(a > x) || b >= r);
                }
                j += 1;
            }
        }
        LN_ARG32[k] = x;
        LN_CALLS32 = k + 1;
        r
    }
}
#[cfg(kani)]
pub fn ln_stub_f64(x: f64) -> f64 {
    unsafe {
        let k = LN_CALLS64;
        kani::assume(k < LN_SLOTS);
        let r = LN_RET64[k];
        if x.is_nan() || x < 0.0 {
            kani::assume(r.is_nan());
        } else if x == 0.0 {
            kani::assume(r == f64::NEG_INFINITY);
        } else if x == f64::INFINITY {
            kani::assume(r == f64::INFINITY);
        } else {
            kani::assume(r.is_finite());
            kani::assume((x < 1.0) == (r < 0.0));
            kani::assume((x == 1.0) == (r == 0.0));
            let mut j = 0;
            while j < k {
                let (a, b) = (LN_ARG64[j], LN_RET64[j]);
                if a > 0.0 && a.is_finite() {
                    kani::assume(!(a == x) || b == r);
                    kani::assume(!(a < x) || b <= r);
                    kani::assume(!(a > x) || b >= r);
                }
                j += 1;
            }
        }
        LN_ARG64[k] = x;
        LN_CALLS64 = k + 1;
        r
    }
}

/// What `ln` returned for the k-th call: the stub's value under Kani, the real `ln` natively.
pub fn ln_of_f32(k: usize, x: f32) -> f32 {
    #[cfg(kani)]
    unsafe {
        let _ = x;
        LN_RET32[k]
    }
    #[cfg(not(kani))]
    {
        let _ = k;
        x.ln()
    }
}
/// Did the k-th `ln` call receive exactly `x`?  (always true natively)
pub fn ln_called_with_f32(k: usize, x: f32) -> bool {
    #[cfg(kani)]
    unsafe {
        LN_CALLS32 > k && LN_ARG32[k].to_bits() == x.to_bits()
    }
    #[cfg(not(kani))]
    {
        let _ = (k, x);
        true
    }
}
pub fn ln_called_with_f64(k: usize, x: f64) -> bool {
    #[cfg(kani)]
    unsafe {
        LN_CALLS64 > k && LN_ARG64[k].to_bits() == x.to_bits()
    }
    #[cfg(not(kani))]
    {
        let _ = (k, x);
        true
    }
}
pub fn ln_of_f64(k: usize, x: f64) -> f64 {
    #[cfg(kani)]
    unsafe {
        let _ = x;
        LN_RET64[k]
    }
    #[cfg(not(kani))]
    {
        let _ = k;
        x.ln()
    }
}

// ------------------------------------------------------------------------------------------
// seed_from_u64 recorder: assumption "SmallRng::seed_from_u64 is injective" (the real
// SplitMix64 expansion makes CBMC invert 64-bit multiplications and does not finish).
// ------------------------------------------------------------------------------------------
pub const SEED_SLOTS: usize = 16;
pub static mut SEEDS: [u64; SEED_SLOTS] = [0; SEED_SLOTS];
pub static mut SEED_CALLS: usize = 0;

pub fn injective_seed(seed: u64) -> [u8; 32] {
    crate::words_to_seed([seed, 0x9E37_79B9_7F4A_7C15, 0x3C6E_F372_FE94_F82A, 1])
}

#[cfg(kani)]
pub fn seed_from_u64_stub(seed: u64) -> SmallRng {
    unsafe {
        if SEED_CALLS < SEED_SLOTS {
            SEEDS[SEED_CALLS] = seed;
        }
        SEED_CALLS += 1;
    }
    SmallRng::from_seed(injective_seed(seed))
}

/// Generator that `SmallRng::seed_from_u64(seed)` yields in the current mode.
pub fn rng_of_seed(seed: u64) -> SmallRng {
    #[cfg(kani)]
    {
        SmallRng::from_seed(injective_seed(seed))
    }
    #[cfg(not(kani))]
    {
        SmallRng::seed_from_u64(seed)
    }
}

// ------------------------------------------------------------------------------------------
// rand_distr's ziggurat kernel: "a deterministic, finite function of exactly one next_u64()".
// Bit operations only (multiplying stubs make CBMC prove multiplier equivalences).
// ------------------------------------------------------------------------------------------
#[cfg(kani)]
pub fn ziggurat_stub<R: rand::Rng + ?Sized, P, Z>(
    rng: &mut R,
    _symmetric: bool,
    _x_tab: &'static [f64; 257],
    _f_tab: &'static [f64; 257],
    _pdf: P,
    _zero_case: Z,
) -> f64
where
    P: FnMut(f64) -> f64,
    Z: FnMut(&mut R, f64) -> f64,
{
    let bits = rng.next_u64();
    // finite, sign from the low bit, magnitude in [1,2): exponent fixed, mantissa from the draw
    let mant = bits >> 12;
    let sign = (bits & 1) << 63;
    f64::from_bits(sign | 0x3FF0_0000_0000_0000 | mant)
}

// ------------------------------------------------------------------------------------------
// alloc::fmt::format: messages are not the subject of any property.
// ------------------------------------------------------------------------------------------
#[cfg(kani)]
pub fn fmt_format_stub(_args: core::fmt::Arguments<'_>) -> String {
    String::new()
}

// ------------------------------------------------------------------------------------------
// sqrt: CBMC's library model raises `feraiseexcept` assertions on negative arguments, which is
// not Rust semantics (NaN).  Contract stub: NaN for NaN/negative, otherwise a non-negative value
// chosen by the harness (0 at 0, +inf at +inf).
// ------------------------------------------------------------------------------------------
pub static mut SQRT_RET32: [f32; LN_SLOTS] = [0.0; LN_SLOTS];
pub static mut SQRT_CALLS32: usize = 0;
pub fn set_sqrt32(src: &mut crate::Src, slots: usize) {
    unsafe {
        SQRT_CALLS32 = 0;
        let mut i = 0;
        while i < slots && i < LN_SLOTS {
            SQRT_RET32[i] = src.f32();
            i += 1;
        }
    }
}
#[cfg(kani)]
pub fn sqrt_stub_f32(x: f32) -> f32 {
    unsafe {
        let k = SQRT_CALLS32;
        kani::assume(k < LN_SLOTS);
        SQRT_CALLS32 = k + 1;
        let r = SQRT_RET32[k];
        if x.is_nan() || x < 0.0 {
            kani::assume(r.is_nan());
        } else if x == 0.0 {
            kani::assume(r == 0.0);
        } else if x == f32::INFINITY {
            kani::assume(r == f32::INFINITY);
        } else {
            kani::assume(r > 0.0 && r.is_finite());
        }
        r
    }
}

/// fused multiply-add: CBMC's fmaf model raises `feraiseexcept`; the unfused form is used instead
/// (only the summary's std goes through it, which no K-obligation inspects).
#[cfg(kani)]
pub fn mul_add_stub_f32(a: f32, b: f32, c: f32) -> f32 {
    a * b + c
}

