//! ioreplay '<case json>' <tmpdir>  -> one JSON line {"ok": bool, "what": "..."}
use arrow::array::{Array, Float64Array, UInt32Array};
use arrow::datatypes::DataType;
use arrow::ipc::reader::FileReader;
use arrow::record_batch::RecordBatch;
use burn::backend::ndarray::{NdArray, NdArrayDevice};
use burn::tensor::{Tensor, TensorData};
use mini_mcmc::io::arrow::save_arrow;
use mini_mcmc::io::csv::{save_csv, save_csv_tensor};
use mini_mcmc::io::parquet::{save_parquet, save_parquet_tensor};
use ndarray::Array3;
use parquet::arrow::arrow_reader::ParquetRecordBatchReaderBuilder;
use serde_json::{json, Value};
use std::fs::File;

fn special() -> Vec<f32> {
    vec![0.0, -0.0, f32::NAN, f32::INFINITY, f32::NEG_INFINITY, f32::MIN_POSITIVE / 4.0, f32::MAX, f32::MIN, 1.0e-45,
         0.1, 1.0 / 3.0, -2.5e-7, 16777217.0, f32::EPSILON, -f32::MIN_POSITIVE, 123456.79]
}

fn value(kind: &str, i: usize, j: usize, k: usize, flat: usize) -> f32 {
    if kind == "special" {
        let s = special();
        s[flat % s.len()]
    } else {
        (i * 1000 + j * 10 + k) as f32 + 0.5
    }
}

fn same64(a: f64, b: f64) -> bool {
    (a.is_nan() && b.is_nan()) || a.to_bits() == b.to_bits()
}

fn same32(a: f32, b: f32) -> bool {
    (a.is_nan() && b.is_nan()) || a.to_bits() == b.to_bits()
}

/// rows read back: (label0, label1, values as f64)
struct Table {
    names: Vec<String>,
    rows: Vec<(u64, u64, Vec<f64>)>,
}

fn check_table(t: &Table, labels: (&str, &str), shape: [usize; 3], expect: &dyn Fn(usize, usize, usize) -> f64) -> Result<(), String> {
    let mut want = vec![labels.0.to_string(), labels.1.to_string()];
    want.extend((0..shape[2]).map(|k| format!("dim_{k}")));
    if t.names != want {
        return Err(format!("header/schema names {:?}, expected {:?}", t.names, want));
    }
    if t.rows.len() != shape[0] * shape[1] {
        return Err(format!("{} rows read back, expected {}", t.rows.len(), shape[0] * shape[1]));
    }
    let mut seen = std::collections::BTreeSet::new();
    for (r, (a, b, vals)) in t.rows.iter().enumerate() {
        let (i, j) = (*a as usize, *b as usize);
        if i >= shape[0] || j >= shape[1] || !seen.insert((i, j)) {
            return Err(format!("row {r} labelled ({a}, {b}): out of range or duplicate"));
        }
        if vals.len() != shape[2] {
            return Err(format!("row {r} has {} values", vals.len()));
        }
        for k in 0..shape[2] {
            if !same64(vals[k], expect(i, j, k)) {
                return Err(format!("row labelled ({i}, {j}) dim_{k} reads {:e}, stored value is {:e}", vals[k], expect(i, j, k)));
            }
        }
    }
    Ok(())
}

fn batches_to_table(names: Vec<String>, batches: &[RecordBatch]) -> Result<Table, String> {
    let mut rows = vec![];
    for b in batches {
        let c0 = b.column(0).as_any().downcast_ref::<UInt32Array>().ok_or("column 0 is not UInt32")?;
        let c1 = b.column(1).as_any().downcast_ref::<UInt32Array>().ok_or("column 1 is not UInt32")?;
        let mut dims = vec![];
        for c in 2..b.num_columns() {
            dims.push(b.column(c).as_any().downcast_ref::<Float64Array>().ok_or("dim column is not Float64")?);
        }
        for r in 0..b.num_rows() {
            if c0.is_null(r) || c1.is_null(r) || dims.iter().any(|d| d.is_null(r)) {
                return Err("null cell".into());
            }
            rows.push((c0.value(r) as u64, c1.value(r) as u64, dims.iter().map(|d| d.value(r)).collect()));
        }
    }
    Ok(Table { names, rows })
}

fn check_schema(schema: &arrow::datatypes::Schema, nullable_too: bool) -> Result<Vec<String>, String> {
    for (i, f) in schema.fields().iter().enumerate() {
        let want = if i < 2 { DataType::UInt32 } else { DataType::Float64 };
        if f.data_type() != &want {
            return Err(format!("field {} has type {:?}", f.name(), f.data_type()));
        }
        if nullable_too && f.is_nullable() {
            return Err(format!("field {} is nullable", f.name()));
        }
    }
    Ok(schema.fields().iter().map(|f| f.name().clone()).collect())
}

fn read_arrow(path: &str) -> Result<Table, String> {
    let reader = FileReader::try_new(File::open(path).map_err(|e| e.to_string())?, None).map_err(|e| format!("arrow reader: {e}"))?;
    let names = check_schema(&reader.schema(), true)?;
    let mut batches = vec![];
    for b in reader {
        batches.push(b.map_err(|e| format!("arrow batch: {e}"))?);
    }
    batches_to_table(names, &batches)
}

fn read_parquet(path: &str) -> Result<Table, String> {
    let builder = ParquetRecordBatchReaderBuilder::try_new(File::open(path).map_err(|e| e.to_string())?).map_err(|e| format!("parquet reader: {e}"))?;
    let names = check_schema(builder.schema(), true)?;
    let reader = builder.with_batch_size(7).build().map_err(|e| format!("parquet reader: {e}"))?;
    let mut batches = vec![];
    for b in reader {
        batches.push(b.map_err(|e| format!("parquet batch: {e}"))?);
    }
    batches_to_table(names, &batches)
}

fn read_csv<P: Fn(&str) -> Option<f64>>(path: &str, parse: P) -> Result<Table, String> {
    let mut rdr = csv::Reader::from_path(path).map_err(|e| format!("csv reader: {e}"))?;
    let names: Vec<String> = rdr.headers().map_err(|e| format!("csv header: {e}"))?.iter().map(|s| s.to_string()).collect();
    let mut rows = vec![];
    for rec in rdr.records() {
        let rec = rec.map_err(|e| format!("csv record: {e}"))?;
        if rec.len() < 2 {
            return Err("short record".into());
        }
        let a: u64 = rec[0].parse().map_err(|_| format!("label {:?}", &rec[0]))?;
        let b: u64 = rec[1].parse().map_err(|_| format!("label {:?}", &rec[1]))?;
        let mut vals = vec![];
        for k in 2..rec.len() {
            vals.push(parse(&rec[k]).ok_or(format!("value {:?} does not parse", &rec[k]))?);
        }
        rows.push((a, b, vals));
    }
    Ok(Table { names, rows })
}

fn run(case: &Value, tmp: &str) -> Result<(), String> {
    let f = case["fn"].as_str().unwrap_or("");
    let sh: Vec<usize> = case["shape"].as_array().unwrap().iter().map(|v| v.as_u64().unwrap() as usize).collect();
    let shape = [sh[0], sh[1], sh[2]];
    let kind = case["values"].as_str().unwrap_or("distinct");
    let devfull = case["devfull"].as_bool().unwrap_or(false);
    let unwritable = case["unwritable"].as_bool().unwrap_or(false) || devfull;
    if devfull {
        // only a real character device will do (and it must never be removed or replaced by this program)
        use std::os::unix::fs::FileTypeExt;
        match std::fs::metadata("/dev/full") {
            Ok(m) if m.file_type().is_char_device() => {}
            _ => return Ok(()), // no such device on this host: nothing to replay
        }
    }
    let path = if devfull {
        // a file that can be created/opened but not written: every write fails with ENOSPC
        "/dev/full".to_string()
    } else if unwritable {
        format!("{tmp}/no-such-dir-{}/x/out.file", std::process::id())
    } else {
        format!("{tmp}/io-{}-{}.out", std::process::id(), f)
    };
    if !devfull {
        let _ = std::fs::remove_file(&path);
    }
    let mut flat32 = vec![];
    for i in 0..shape[0] {
        for j in 0..shape[1] {
            for k in 0..shape[2] {
                let n = flat32.len();
                flat32.push(value(kind, i, j, k, n));
            }
        }
    }
    let at = |i: usize, j: usize, k: usize| flat32[(i * shape[1] + j) * shape[2] + k];
    let arr32 = Array3::from_shape_vec((shape[0], shape[1], shape[2]), flat32.clone()).unwrap();
    // f64 data that is not representable in f32 either (the low bits must survive)
    let arr64 = arr32.mapv(|v| if v.is_finite() && v.abs() < 1e30 { v as f64 + (v as f64) * 1e-12 } else { v as f64 });
    let at64 = |i: usize, j: usize, k: usize| arr64[[i, j, k]];
    let arr_i = arr32.mapv(|v| if v.is_finite() { (v.max(-1e9).min(1e9)) as i32 - 7 } else { -3 });
    let tensor = || Tensor::<NdArray<f32>, 3>::from_data(TensorData::new(flat32.clone(), shape), &NdArrayDevice::Cpu);
    type Save<'a> = Box<dyn Fn(&str) -> Result<(), Box<dyn std::error::Error>> + 'a>;
    type Check<'a> = Box<dyn Fn(&str) -> Result<(), String> + 'a>;
    let cc = ("chain", "observation");
    let ai = arr_i.clone();
    let at_i = move |i: usize, j: usize, k: usize| ai[[i, j, k]] as f64;
    let mut variants: Vec<(&str, Save, Check)> = vec![];
    match f {
        "save_csv" => {
            variants.push(("f32", Box::new(|p| save_csv(&arr32, p)), Box::new(|p| {
                let t = read_csv(p, |s| s.parse::<f32>().ok().map(|v| v as f64))?;
                check_table(&t, cc, shape, &|i, j, k| at(i, j, k) as f64)
            })));
            variants.push(("f64", Box::new(|p| save_csv(&arr64, p)), Box::new(|p| {
                let t = read_csv(p, |s| s.parse::<f64>().ok())?;
                check_table(&t, cc, shape, &|i, j, k| at64(i, j, k))
            })));
            variants.push(("i32", Box::new(|p| save_csv(&arr_i, p)), Box::new(|p| {
                let t = read_csv(p, |s| s.parse::<i32>().ok().map(|v| v as f64))?;
                check_table(&t, cc, shape, &at_i)
            })));
        }
        "save_csv_tensor" => {
            variants.push(("f32 tensor", Box::new(|p| save_csv_tensor(tensor(), p)), Box::new(|p| {
                let t = read_csv(p, |s| s.parse::<f32>().ok().map(|v| v as f64))?;
                check_table(&t, cc, shape, &|i, j, k| at(i, j, k) as f64)
            })));
        }
        "save_arrow" => {
            variants.push(("f32", Box::new(|p| save_arrow(&arr32, p)), Box::new(|p| check_table(&read_arrow(p)?, cc, shape, &|i, j, k| at(i, j, k) as f64))));
            variants.push(("f64", Box::new(|p| save_arrow(&arr64, p)), Box::new(|p| check_table(&read_arrow(p)?, cc, shape, &|i, j, k| at64(i, j, k)))));
            variants.push(("i32", Box::new(|p| save_arrow(&arr_i, p)), Box::new(|p| check_table(&read_arrow(p)?, cc, shape, &at_i))));
        }
        "save_parquet" => {
            variants.push(("f32", Box::new(|p| save_parquet(&arr32, p)), Box::new(|p| check_table(&read_parquet(p)?, cc, shape, &|i, j, k| at(i, j, k) as f64))));
            variants.push(("f64", Box::new(|p| save_parquet(&arr64, p)), Box::new(|p| check_table(&read_parquet(p)?, cc, shape, &|i, j, k| at64(i, j, k)))));
            variants.push(("i32", Box::new(|p| save_parquet(&arr_i, p)), Box::new(|p| check_table(&read_parquet(p)?, cc, shape, &at_i))));
        }
        "save_parquet_tensor" => {
            variants.push(("f32 tensor", Box::new(|p| save_parquet_tensor::<NdArray<f32>, _, f32>(&tensor(), p)), Box::new(|p| {
                check_table(&read_parquet(p)?, ("observation", "chain"), shape, &|i, j, k| at(i, j, k) as f64)
            })));
        }
        _ => return Err(format!("unknown fn {f}")),
    }
    for (name, save, chk) in &variants {
        if !devfull {
            let _ = std::fs::remove_file(&path);
        }
        let res = save(&path);
        if unwritable {
            if res.is_ok() {
                return Err(format!("{f}<{name}> reports success for a path that cannot be written"));
            }
            continue;
        }
        if let Err(e) = res {
            return Err(format!("{f}<{name}> fails on a writable path: {e}"));
        }
        chk(&path).map_err(|e| format!("{f}<{name}> shape {:?} {kind}: {e}", shape))?;
    }
    if !devfull {
        let _ = std::fs::remove_file(&path);
    }
    let _ = same32(0.0, 0.0);
    Ok(())
}

fn main() {
    let args: Vec<String> = std::env::args().collect();
    let case: Value = serde_json::from_str(&args[1]).expect("case json");
    let tmp = args.get(2).cloned().unwrap_or_else(|| ".".into());
    let r = std::panic::catch_unwind(|| run(&case, &tmp));
    match r {
        Ok(Ok(())) => println!("{}", json!({"ok": true})),
        Ok(Err(e)) => println!("{}", json!({"ok": false, "what": e})),
        Err(_) => println!("{}", json!({"ok": false, "panic": true, "what": "panic inside the save function or the reader"})),
    }
}
