//! Native evaluation of the real mini-mcmc functions on one concrete case (Engine M replay).
//! `mreplay <case.json>` prints one JSON line with the outputs; a panic is reported by the exit
//! status and stderr.  The comparison with the specification is done by the Python side.
#[cfg(kani)]
fn main() {}

#[cfg(not(kani))]
mod imp {
    use mini_mcmc::distributions::{DiffableGaussian2D, Gaussian2D, IsotropicGaussian, Normalized, Proposal, Target};
    use mini_mcmc::stats::{basic_stats, collect_rhat, split_rhat_mean_ess, ChainStats, ChainTracker, MultiChainTracker};
    use ndarray::{arr1, arr2, Array1, Array3};
    use serde_json::{json, Value};

    fn f64s(v: &Value) -> Vec<f64> {
        v.as_array().map(|a| a.iter().map(|x| x.as_f64().unwrap_or(f64::NAN)).collect()).unwrap_or_default()
    }
    fn f32s(v: &Value) -> Vec<f32> {
        f64s(v).into_iter().map(|x| x as f32).collect()
    }
    fn num(x: f64) -> Value {
        if x.is_finite() {
            json!(x)
        } else if x.is_nan() {
            json!("NaN")
        } else if x > 0.0 {
            json!("inf")
        } else {
            json!("-inf")
        }
    }
    fn nums32(v: &[f32]) -> Value {
        Value::Array(v.iter().map(|x| num(*x as f64)).collect())
    }

    pub fn run(case: &Value) -> Value {
        let kind = case["case"].as_str().unwrap_or("");
        match kind {
            "iso_logp" => {
                let std = case["std"].as_f64().unwrap();
                let from = f64s(&case["from"]);
                let to = f64s(&case["to"]);
                let p64 = IsotropicGaussian::<f64>::new(std);
                let p32 = IsotropicGaussian::<f32>::new(std as f32);
                let from32: Vec<f32> = from.iter().map(|x| *x as f32).collect();
                let to32: Vec<f32> = to.iter().map(|x| *x as f32).collect();
                json!({
                    "logp_f64": num(p64.logp(&from, &to)),
                    "logp_f64_rev": num(p64.logp(&to, &from)),
                    "logp_f32": num(p32.logp(&from32, &to32) as f64),
                    "unnorm_f64": num(Target::<f64, f64>::unnorm_logp(&p64, &to)),
                })
            }
            "iso_sample" => {
                // sample(from) against from + std * z with z drawn by StandardNormal from a clone of the proposal's generator
                use rand_distr::{Distribution, StandardNormal};
                let std = case["std"].as_f64().unwrap();
                let from = f64s(&case["from"]);
                let mut p = IsotropicGaussian::<f64>::new(std).set_seed(case["seed"].as_u64().unwrap_or(9));
                let mut twin = p.verif_rng().clone();
                let got = p.sample(&from);
                let want: Vec<f64> = from.iter().map(|x| { let z: f64 = StandardNormal.sample(&mut twin); *x + std * z }).collect();
                let again = IsotropicGaussian::<f64>::new(std).set_seed(case["seed"].as_u64().unwrap_or(9)).sample(&from);
                json!({"sample": Value::Array(got.iter().map(|x| num(*x)).collect()), "want": Value::Array(want.iter().map(|x| num(*x)).collect()), "same_seed_same_draw": got == again})
            }
            "gaussian2d" => {
                let mean = f64s(&case["mean"]);
                let cov = f64s(&case["cov"]);
                let x = f64s(&case["x"]);
                let g = Gaussian2D::<f64> { mean: arr1(&[mean[0], mean[1]]), cov: arr2(&[[cov[0], cov[1]], [cov[2], cov[3]]]) };
                json!({"logp": num(g.logp(&x)), "unnorm": num(g.unnorm_logp(&x))})
            }
            "diffable_new" => {
                let mean = f64s(&case["mean"]);
                let cov = f64s(&case["cov"]);
                let g = DiffableGaussian2D::<f64>::new([mean[0], mean[1]], [[cov[0], cov[1]], [cov[2], cov[3]]]);
                json!({
                    "inv_cov": [num(g.inv_cov[0][0]), num(g.inv_cov[0][1]), num(g.inv_cov[1][0]), num(g.inv_cov[1][1])],
                    "logdet_cov": num(g.logdet_cov), "norm_const": num(g.norm_const)})
            }
            "split_rhat_ess" => {
                let shape: Vec<usize> = case["shape"].as_array().unwrap().iter().map(|x| x.as_u64().unwrap() as usize).collect();
                let data = f32s(&case["data"]);
                let arr = Array3::from_shape_vec((shape[0], shape[1], shape[2]), data).unwrap();
                let (rhat, ess) = split_rhat_mean_ess(arr.view());
                json!({"rhat": nums32(rhat.as_slice().unwrap()), "ess": nums32(ess.as_slice().unwrap())})
            }
            "collect_rhat" => {
                let chains: Vec<ChainStats> = case["chains"].as_array().unwrap().iter().map(|c| ChainStats {
                    n: c["n"].as_u64().unwrap(),
                    p_accept: 0.5,
                    mean: Array1::from(f32s(&c["mean"])),
                    sm2: Array1::from(f32s(&c["sm2"])),
                }).collect();
                let refs: Vec<&ChainStats> = chains.iter().collect();
                let r = collect_rhat(&refs);
                json!({"rhat": nums32(r.as_slice().unwrap())})
            }
            "trackers" => {
                // the same draws fed to per-chain trackers and to the multi-chain tracker
                let n_chains = case["n_chains"].as_u64().unwrap() as usize;
                let n_params = case["n_params"].as_u64().unwrap() as usize;
                let steps: Vec<Vec<f32>> = case["steps"].as_array().unwrap().iter().map(f32s).collect();
                let init = f32s(&case["init"]);
                let mut multi = MultiChainTracker::new(n_chains, n_params);
                let mut singles: Vec<ChainTracker> = (0..n_chains)
                    .map(|c| ChainTracker::new(n_params, &init[c * n_params..(c + 1) * n_params]))
                    .collect();
                let mut p_hist: Vec<Vec<f64>> = vec![Vec::new(); n_chains];
                for s in steps.iter() {
                    multi.step(s.as_slice()).unwrap();
                    for c in 0..n_chains {
                        singles[c].step(&s[c * n_params..(c + 1) * n_params]).unwrap();
                        p_hist[c].push(singles[c].stats().p_accept as f64);
                    }
                }
                let stats: Vec<ChainStats> = singles.iter().map(|t| t.stats()).collect();
                let refs: Vec<&ChainStats> = stats.iter().collect();
                let r1 = collect_rhat(&refs);
                let r2 = multi.rhat().unwrap();
                json!({
                    "collect_rhat": nums32(r1.as_slice().unwrap()),
                    "multi_rhat": nums32(r2.as_slice().unwrap()),
                    "multi_p_accept": num(multi.p_accept as f64),
                    "p_hist": p_hist,
                    "chains": stats.iter().map(|s| json!({"n": s.n, "p_accept": num(s.p_accept as f64),
                        "mean": nums32(s.mean.as_slice().unwrap()), "sm2": nums32(s.sm2.as_slice().unwrap())})).collect::<Vec<_>>(),
                })
            }
            "basic_stats" => {
                let data = f32s(&case["data"]);
                let st = basic_stats("x", Array1::from(data));
                json!({"min": num(st.min as f64), "max": num(st.max as f64), "median": num(st.median as f64),
                       "mean": num(st.mean as f64), "std": num(st.std as f64)})
            }
            _ => crate::imp2::run(case),
        }
    }
}

#[cfg(not(kani))]
mod imp2 {
    //! Differential replay for HMC / NUTS: the real sampler code against a plain-f64 reference
    //! (velocity Verlet, Metropolis test, Hoffman-Gelman Algorithm 6, dual averaging inputs) that draws
    //! from a clone of the sampler's generator with the same rand calls in the algorithm's order.
    use burn::backend::{Autodiff, NdArray};
    use burn::prelude::*;
    use mini_mcmc::distributions::{DiffableGaussian2D, Rosenbrock2D};
    use mini_mcmc::hmc::HMC;
    use mini_mcmc::nuts::{verif_hooks, NUTSChain};
    use rand::rngs::SmallRng;
    use rand::{Rng, SeedableRng};
    use rand_distr::{Exp1, StandardNormal};
    use serde_json::{json, Value};

    type B32 = Autodiff<NdArray<f32>>;
    type B64 = Autodiff<NdArray<f64>>;

    fn f64s(v: &Value) -> Vec<f64> {
        v.as_array().map(|a| a.iter().map(|x| x.as_f64().unwrap_or(f64::NAN)).collect()).unwrap_or_default()
    }
    fn num(x: f64) -> Value {
        if x.is_finite() { json!(x) } else if x.is_nan() { json!("NaN") } else if x > 0.0 { json!("inf") } else { json!("-inf") }
    }
    fn nums(v: &[f64]) -> Value {
        Value::Array(v.iter().map(|x| num(*x)).collect())
    }
    fn t1(v: &[f64]) -> Tensor<B64, 1> {
        Tensor::<B64, 1>::from_data(TensorData::new(v.to_vec(), [v.len()]), &Default::default())
    }
    fn v1(t: &Tensor<B64, 1>) -> Vec<f64> {
        t.to_data().to_vec::<f64>().unwrap()
    }

    /// closed-form reference targets (2-D)
    #[derive(Clone)]
    pub enum RefT {
        Gauss { mean: [f64; 2], inv: [[f64; 2]; 2], norm: f64 },
        Rosen { a: f64, b: f64 },
        /// bounded support: ln(x0) - (x0^2 + x1^2)/2 on x0 > 0 (NaN for x0 < 0, -inf at 0)
        Half,
    }

    /// the same target for the real samplers, written with burn ops
    #[derive(Clone)]
    pub struct HalfGauss;
    impl mini_mcmc::distributions::GradientTarget<f64, B64> for HalfGauss {
        fn unnorm_logp(&self, position: Tensor<B64, 1>) -> Tensor<B64, 1> {
            let x0 = position.clone().slice([0..1]);
            x0.log() - position.powf_scalar(2.0).sum().mul_scalar(0.5)
        }
    }
    impl mini_mcmc::distributions::BatchedGradientTarget<f64, B64> for HalfGauss {
        fn unnorm_logp_batch(&self, positions: Tensor<B64, 2>) -> Tensor<B64, 1> {
            let n = positions.dims()[0];
            let x0 = positions.clone().slice([0..n, 0..1]).flatten::<1>(0, 1);
            x0.log() - positions.powf_scalar(2.0).sum_dim(1).squeeze::<1>(1).mul_scalar(0.5)
        }
    }
    impl RefT {
        fn lp(&self, x: &[f64]) -> f64 {
            match self {
                RefT::Gauss { mean, inv, norm } => {
                    let d = [x[0] - mean[0], x[1] - mean[1]];
                    let z = [d[0] * inv[0][0] + d[1] * inv[1][0], d[0] * inv[0][1] + d[1] * inv[1][1]];
                    norm - 0.5 * (z[0] * d[0] + z[1] * d[1])
                }
                RefT::Rosen { a, b } => -((a - x[0]).powi(2) + b * (x[1] - x[0] * x[0]).powi(2)),
                RefT::Half => x[0].ln() - 0.5 * (x[0] * x[0] + x[1] * x[1]),
            }
        }
        fn grad(&self, x: &[f64]) -> Vec<f64> {
            match self {
                RefT::Gauss { mean, inv, .. } => {
                    let d = [x[0] - mean[0], x[1] - mean[1]];
                    // -1/2 (Sigma^-1 + Sigma^-T) d
                    vec![
                        -0.5 * ((inv[0][0] + inv[0][0]) * d[0] + (inv[0][1] + inv[1][0]) * d[1]),
                        -0.5 * ((inv[1][0] + inv[0][1]) * d[0] + (inv[1][1] + inv[1][1]) * d[1]),
                    ]
                }
                RefT::Rosen { a, b } => {
                    let t = x[1] - x[0] * x[0];
                    vec![2.0 * (a - x[0]) + 4.0 * b * x[0] * t, -2.0 * b * t]
                }
                RefT::Half => {
                    // d/dx0 ln(x0) is NaN where ln is NaN (burn's autodiff gives 1/x0 * NaN-free... keep IEEE: 1/x0 for x0>0)
                    let g0 = if x[0] > 0.0 { 1.0 / x[0] - x[0] } else { f64::NAN };
                    vec![g0, -x[1]]
                }
            }
        }
    }

    fn targets(case: &Value) -> (RefT, Option<DiffableGaussian2D<f64>>, Option<Rosenbrock2D<f64>>) {
        if case["target"]["kind"].as_str() == Some("half") {
            return (RefT::Half, None, None);
        }
        if case["target"]["kind"].as_str() == Some("rosenbrock") {
            let a = case["target"]["a"].as_f64().unwrap_or(1.0);
            let b = case["target"]["b"].as_f64().unwrap_or(3.0);
            (RefT::Rosen { a, b }, None, Some(Rosenbrock2D { a, b }))
        } else {
            let mean = f64s(&case["target"]["mean"]);
            let cov = f64s(&case["target"]["cov"]);
            let g = DiffableGaussian2D::<f64>::new([mean[0], mean[1]], [[cov[0], cov[1]], [cov[2], cov[3]]]);
            (RefT::Gauss { mean: g.mean, inv: g.inv_cov, norm: g.norm_const }, Some(g), None)
        }
    }

    fn dot(a: &[f64], b: &[f64]) -> f64 {
        a.iter().zip(b).map(|(x, y)| x * y).sum()
    }
    fn ref_leapfrog(t: &RefT, th: &[f64], r: &[f64], g: &[f64], eps: f64) -> (Vec<f64>, Vec<f64>, Vec<f64>, f64) {
        let r1: Vec<f64> = r.iter().zip(g).map(|(r, g)| r + g * eps * 0.5).collect();
        let th1: Vec<f64> = th.iter().zip(&r1).map(|(t, r)| t + r * eps).collect();
        let lp1 = t.lp(&th1);
        let g1 = t.grad(&th1);
        let r2: Vec<f64> = r1.iter().zip(&g1).map(|(r, g)| r + g * eps * 0.5).collect();
        (th1, r2, g1, lp1)
    }
    fn uturn(thm: &[f64], thp: &[f64], rm: &[f64], rp: &[f64]) -> bool {
        let d: Vec<f64> = thp.iter().zip(thm).map(|(p, m)| p - m).collect();
        dot(&d, rm) >= 0.0 && dot(&d, rp) >= 0.0
    }
    #[derive(Clone)]
    pub struct Tree {
        thm: Vec<f64>, rm: Vec<f64>, gm: Vec<f64>, thp: Vec<f64>, rp: Vec<f64>, gp: Vec<f64>,
        th1: Vec<f64>, g1: Vec<f64>, lp1: f64, n: usize, s: bool, a: f64, na: usize,
    }
    #[allow(clippy::too_many_arguments)]
    fn ref_build(t: &RefT, th: &[f64], r: &[f64], g: &[f64], logu: f64, v: i8, j: usize, eps: f64, joint0: f64, rng: &mut SmallRng) -> Tree {
        if j == 0 {
            let (th1, r1, g1, lp1) = ref_leapfrog(t, th, r, g, (v as f64) * eps);
            let joint = lp1 - 0.5 * dot(&r1, &r1);
            return Tree { thm: th1.clone(), rm: r1.clone(), gm: g1.clone(), thp: th1.clone(), rp: r1.clone(), gp: g1.clone(),
                          th1, g1, lp1, n: (logu < joint) as usize, s: logu - 1000.0 < joint,
                          a: f64::min(1.0, (joint - joint0).exp()), na: 1 };
        }
        let mut tr = ref_build(t, th, r, g, logu, v, j - 1, eps, joint0, rng);
        if tr.s {
            let t2 = if v == -1 {
                ref_build(t, &tr.thm.clone(), &tr.rm.clone(), &tr.gm.clone(), logu, v, j - 1, eps, joint0, rng)
            } else {
                ref_build(t, &tr.thp.clone(), &tr.rp.clone(), &tr.gp.clone(), logu, v, j - 1, eps, joint0, rng)
            };
            if v == -1 { tr.thm = t2.thm.clone(); tr.rm = t2.rm.clone(); tr.gm = t2.gm.clone(); }
            else { tr.thp = t2.thp.clone(); tr.rp = t2.rp.clone(); tr.gp = t2.gp.clone(); }
            let u: f64 = rng.random::<f64>();
            if u < (t2.n as f64) / ((tr.n + t2.n).max(1) as f64) {
                tr.th1 = t2.th1.clone(); tr.g1 = t2.g1.clone(); tr.lp1 = t2.lp1;
            }
            tr.n += t2.n;
            tr.s = tr.s && t2.s && uturn(&tr.thm, &tr.thp, &tr.rm, &tr.rp);
            tr.a += t2.a;
            tr.na += t2.na;
        }
        tr
    }
    /// one NUTS transition (Algorithm 6 outer loop): (new position, alpha, n_alpha, depth)
    fn ref_step(t: &RefT, pos: &[f64], eps: f64, rng: &mut SmallRng, max_depth: usize) -> (Vec<f64>, f64, usize, usize) {
        let dim = pos.len();
        let r0: Vec<f64> = (0..dim).map(|_| rng.sample::<f64, _>(StandardNormal)).collect();
        let lp0 = t.lp(pos);
        let g0 = t.grad(pos);
        let joint = lp0 - 0.5 * dot(&r0, &r0);
        let e: f64 = rng.sample(Exp1);
        let logu = joint - e;
        let (mut thm, mut thp, mut rm, mut rp, mut gm, mut gp) = (pos.to_vec(), pos.to_vec(), r0.clone(), r0.clone(), g0.clone(), g0.clone());
        let mut cur = pos.to_vec();
        let (mut j, mut n, mut s) = (0usize, 1usize, true);
        let (mut alpha, mut n_alpha) = (0.0, 0usize);
        while s && j <= max_depth {
            let u1: f64 = rng.random::<f64>();
            let v: i8 = if u1 < 0.5 { 1 } else { -1 };
            let tr = if v == -1 {
                let tr = ref_build(t, &thm, &rm, &gm, logu, v, j, eps, joint, rng);
                thm = tr.thm.clone(); rm = tr.rm.clone(); gm = tr.gm.clone();
                tr
            } else {
                let tr = ref_build(t, &thp, &rp, &gp, logu, v, j, eps, joint, rng);
                thp = tr.thp.clone(); rp = tr.rp.clone(); gp = tr.gp.clone();
                tr
            };
            alpha = tr.a; n_alpha = tr.na;
            let u2: f64 = rng.random::<f64>();
            if tr.s && u2 < f64::min(1.0, tr.n as f64 / n as f64) { cur = tr.th1.clone(); }
            n += tr.n;
            s = tr.s && uturn(&thm, &thp, &rm, &rp);
            j += 1;
        }
        (cur, alpha, n_alpha, j)
    }

    fn hmc_run(seed: u64, n_collect: usize) -> Vec<f32> {
        let target = DiffableGaussian2D::new([0.0_f32, 1.0], [[4.0, 2.0], [2.0, 3.0]]);
        let mut s = HMC::<f32, B32, DiffableGaussian2D<f32>>::new(target, vec![vec![0.5_f32, -0.5]; 2], 0.1, 3).set_seed(seed);
        let out: Tensor<B32, 3> = s.run(n_collect, 0);
        out.to_data().to_vec::<f32>().unwrap()
    }

    fn ref_hmc_step(t: &RefT, pos: &[Vec<f64>], eps: f64, l: usize, rng: &mut SmallRng) -> Vec<Vec<f64>> {
        let n = pos.len();
        let d = pos[0].len();
        let mom: Vec<f64> = (0..n * d).map(|_| rng.sample::<f64, _>(StandardNormal)).collect();
        let us: Vec<f64> = (0..n).map(|_| rng.random::<f64>()).collect();
        let mut out = Vec::new();
        for r in 0..n {
            let x0 = pos[r].clone();
            let p0 = mom[r * d..(r + 1) * d].to_vec();
            let (mut x, mut p) = (x0.clone(), p0.clone());
            let mut g = t.grad(&x);
            for _ in 0..l {
                let (x1, p1, g1, _) = ref_leapfrog(t, &x, &p, &g, eps);
                x = x1; p = p1; g = g1;
            }
            let h0 = -t.lp(&x0) + 0.5 * dot(&p0, &p0);
            let h1 = -t.lp(&x) + 0.5 * dot(&p, &p);
            out.push(if us[r].ln() <= h0 - h1 { x } else { x0 });
        }
        out
    }

    pub fn run(case: &Value) -> Value {
        match case["case"].as_str().unwrap_or("") {
            "hmc_same_seed_twice" => {
                let seed = case["seed"].as_u64().unwrap_or(42);
                let n = case["n_collect"].as_u64().unwrap_or(3) as usize;
                let a = hmc_run(seed, n);
                let b = hmc_run(seed, n);
                json!({"equal": a.iter().zip(b.iter()).all(|(x, y)| x.to_bits() == y.to_bits()), "first": a, "second": b})
            }
            "hmc_step" => {
                let (rt, g, ro) = targets(case);
                let pos: Vec<Vec<f64>> = case["positions"].as_array().unwrap().iter().map(f64s).collect();
                let eps = case["eps"].as_f64().unwrap();
                let l = case["L"].as_u64().unwrap() as usize;
                let seed = case["seed"].as_u64().unwrap_or(1);
                let steps = case["steps"].as_u64().unwrap_or(1) as usize;
                let mut rng = SmallRng::seed_from_u64(seed);
                let mut refpos = pos.clone();
                let real: Vec<f64>;
                if let Some(g) = g {
                    let mut s = HMC::<f64, B64, DiffableGaussian2D<f64>>::new(g, pos.clone(), eps, l).set_seed(seed);
                    for _ in 0..steps { s.step(); }
                    real = s.positions.to_data().to_vec::<f64>().unwrap();
                } else if let Some(ro) = ro {
                    let mut s = HMC::<f64, B64, Rosenbrock2D<f64>>::new(ro, pos.clone(), eps, l).set_seed(seed);
                    for _ in 0..steps { s.step(); }
                    real = s.positions.to_data().to_vec::<f64>().unwrap();
                } else {
                    let mut s = HMC::<f64, B64, HalfGauss>::new(HalfGauss, pos.clone(), eps, l).set_seed(seed);
                    for _ in 0..steps { s.step(); }
                    real = s.positions.to_data().to_vec::<f64>().unwrap();
                }
                for _ in 0..steps { refpos = ref_hmc_step(&rt, &refpos, eps, l, &mut rng); }
                json!({"real": nums(&real), "reference": nums(&refpos.concat())})
            }
            "nuts_build_tree" => {
                let (rt, g, ro) = targets(case);
                let th = f64s(&case["position"]);
                let r = f64s(&case["momentum"]);
                let logu = case["logu"].as_f64().unwrap();
                let v = case["v"].as_i64().unwrap() as i8;
                let j = case["j"].as_u64().unwrap() as usize;
                let eps = case["eps"].as_f64().unwrap();
                let joint0 = case["joint0"].as_f64().unwrap();
                let seed = case["seed"].as_u64().unwrap_or(1);
                let g0 = rt.grad(&th);
                let mut rng_ref = SmallRng::seed_from_u64(seed);
                let mut rng_real = SmallRng::seed_from_u64(seed);
                let tr = ref_build(&rt, &th, &r, &g0, logu, v, j, eps, joint0, &mut rng_ref);
                let out = if let Some(g) = g {
                    verif_hooks::build_tree::<B64, f64, _>(t1(&th), t1(&r), t1(&g0), logu, v, j, eps, &g, joint0, &mut rng_real)
                } else if let Some(ro) = ro.as_ref() {
                    verif_hooks::build_tree::<B64, f64, _>(t1(&th), t1(&r), t1(&g0), logu, v, j, eps, ro, joint0, &mut rng_real)
                } else {
                    verif_hooks::build_tree::<B64, f64, _>(t1(&th), t1(&r), t1(&g0), logu, v, j, eps, &HalfGauss, joint0, &mut rng_real)
                };
                json!({
                    "real": {"thm": nums(&v1(&out.0)), "rm": nums(&v1(&out.1)), "thp": nums(&v1(&out.3)), "rp": nums(&v1(&out.4)),
                             "th1": nums(&v1(&out.6)), "n": out.9, "s": out.10, "a": num(out.11), "na": out.12},
                    "reference": {"thm": nums(&tr.thm), "rm": nums(&tr.rm), "thp": nums(&tr.thp), "rp": nums(&tr.rp),
                                  "th1": nums(&tr.th1), "n": tr.n, "s": tr.s, "a": num(tr.a), "na": tr.na},
                    "rng_in_step": rng_ref == rng_real,
                })
            }
            "nuts_step" => {
                let (rt, g, ro) = targets(case);
                let pos = f64s(&case["position"]);
                let seed = case["seed"].as_u64().unwrap_or(1);
                let delta = case["delta"].as_f64().unwrap_or(0.8);
                let st = f64s(&case["adapt"]); // epsilon, epsilon_bar, h_bar, mu
                let m = case["m"].as_u64().unwrap() as usize;
                let nd = case["n_discard"].as_u64().unwrap() as usize;
                let steps = case["steps"].as_u64().unwrap_or(1) as usize;
                let mut outs = Vec::new();
                macro_rules! go {
                    ($target:expr) => {{
                        let mut c = NUTSChain::<f64, B64, _>::new($target, pos.clone(), delta).set_seed(seed);
                        c.verif_set_adapt(st[0], st[1], st[2], st[3], m, nd);
                        let mut refpos = pos.clone();
                        for _ in 0..steps {
                            let before = c.verif_adapt();
                            let mut rng = c.verif_rng().clone();
                            let (np, alpha, n_alpha, depth) = ref_step(&rt, &refpos, before.0, &mut rng, 12);
                            c.step();
                            let after = c.verif_adapt();
                            let real: Vec<f64> = c.position.to_data().to_vec::<f64>().unwrap();
                            outs.push(json!({
                                "before": [num(before.0), num(before.1), num(before.2), num(before.3)], "m_before": before.4,
                                "after": [num(after.0), num(after.1), num(after.2), num(after.3)], "m_after": after.4, "n_discard": after.5,
                                "real_position": nums(&real), "reference_position": nums(&np),
                                "reference_alpha": num(alpha), "reference_n_alpha": n_alpha, "reference_depth": depth,
                                "rng_in_step": &rng == c.verif_rng(),
                            }));
                            refpos = real;
                        }
                    }};
                }
                if let Some(g) = g { go!(g) } else if let Some(ro) = ro { go!(ro) } else { go!(HalfGauss) }
                json!({"steps": outs})
            }
            "targets_eval" => {
                use mini_mcmc::distributions::{BatchedGradientTarget, GradientTarget, RosenbrockND};
                let pts: Vec<Vec<f64>> = case["points"].as_array().unwrap().iter().map(f64s).collect();
                let n = pts.len();
                let flat: Vec<f64> = pts.concat();
                let batch = Tensor::<B64, 2>::from_data(TensorData::new(flat.clone(), [n, 2]), &Default::default());
                let mean = f64s(&case["mean"]);
                let cov = f64s(&case["cov"]);
                let g = DiffableGaussian2D::<f64>::new([mean[0], mean[1]], [[cov[0], cov[1]], [cov[2], cov[3]]]);
                let ro = Rosenbrock2D::<f64> { a: case["a"].as_f64().unwrap_or(1.0), b: case["b"].as_f64().unwrap_or(100.0) };
                let gb: Vec<f64> = BatchedGradientTarget::<f64, B64>::unnorm_logp_batch(&g, batch.clone()).to_data().to_vec().unwrap();
                let rb: Vec<f64> = BatchedGradientTarget::<f64, B64>::unnorm_logp_batch(&ro, batch.clone()).to_data().to_vec().unwrap();
                let gs: Vec<f64> = pts.iter().map(|p| GradientTarget::<f64, B64>::unnorm_logp(&g, t1(p)).into_scalar()).collect();
                let rs: Vec<f64> = pts.iter().map(|p| GradientTarget::<f64, B64>::unnorm_logp(&ro, t1(p)).into_scalar()).collect();
                let ggrad: Vec<Vec<f64>> = pts.iter().map(|p| v1(&GradientTarget::<f64, B64>::unnorm_logp_and_grad(&g, t1(p)).1)).collect();
                let ndpts: Vec<Vec<f64>> = case["nd_points"].as_array().map(|a| a.iter().map(f64s).collect()).unwrap_or_default();
                let nd: Vec<f64> = if ndpts.is_empty() { vec![] } else {
                    let d = ndpts[0].len();
                    let t = Tensor::<B64, 2>::from_data(TensorData::new(ndpts.concat(), [ndpts.len(), d]), &Default::default());
                    BatchedGradientTarget::<f64, B64>::unnorm_logp_batch(&RosenbrockND {}, t).to_data().to_vec().unwrap()
                };
                json!({"gauss_batch": nums(&gb), "gauss_single": nums(&gs), "rosen_batch": nums(&rb), "rosen_single": nums(&rs),
                       "gauss_grad": ggrad.iter().map(|g| nums(g)).collect::<Vec<_>>(), "rosen_nd": nums(&nd)})
            }
            "run_continuation" => {
                // run(a, b) then run(c, 0) on one sampler vs run(a + c, b) on an identically seeded one; state after run
                use mini_mcmc::nuts::NUTSChain;
                let (a, b, c) = (case["a"].as_u64().unwrap() as usize, case["b"].as_u64().unwrap() as usize, case["c"].as_u64().unwrap() as usize);
                let seed = case["seed"].as_u64().unwrap_or(3);
                let g = || DiffableGaussian2D::<f64>::new([0.0, 1.0], [[4.0, 2.0], [2.0, 3.0]]);
                match case["sampler"].as_str().unwrap_or("hmc") {
                    "hmc" => {
                        let mk = || HMC::<f64, B64, _>::new(g(), vec![vec![0.5, -0.5], vec![1.0, 1.2], vec![-0.3, 0.1]], 0.2, 3).set_seed(seed);
                        let (mut s1, mut s2) = (mk(), mk());
                        let r1: Vec<f64> = s1.run(a, b).to_data().to_vec().unwrap();
                        let pos_after: Vec<f64> = s1.positions.to_data().to_vec().unwrap();
                        let r2: Vec<f64> = s1.run(c, 0).to_data().to_vec().unwrap();
                        let long: Vec<f64> = s2.run(a + c, b).to_data().to_vec().unwrap();
                        // b + a transitions made by hand on an identically seeded sampler: positions after each of the last a
                        let mut s3 = mk();
                        let mut manual: Vec<Vec<f64>> = vec![];
                        for k in 0..(a + b) {
                            s3.step();
                            if k >= b {
                                manual.push(s3.positions.to_data().to_vec().unwrap());
                            }
                        }
                        let manual_after: Vec<f64> = s3.positions.to_data().to_vec().unwrap();
                        json!({"first": nums(&r1), "second": nums(&r2), "long": nums(&long), "pos_after_first": nums(&pos_after), "shape": [3, a, 2],
                               "manual": manual.iter().map(|m| nums(m)).collect::<Vec<_>>(), "manual_after": nums(&manual_after)})
                    }
                    _ => {
                        let mk = || NUTSChain::<f64, B64, _>::new(g(), vec![0.5, -0.5], 0.8).set_seed(seed);
                        let mut s1 = mk();
                        let r1: Vec<f64> = s1.run(a, b).to_data().to_vec().unwrap();
                        let pos_after: Vec<f64> = s1.position.to_data().to_vec().unwrap();
                        let rng_after = s1.verif_rng().clone();
                        // a twin that makes exactly a + b - 1 transitions by hand
                        let mut twin = mk();
                        let _ = twin.run(1, 0); // init only: picks eps0, no transition
                        let mut t2 = mk();
                        let r1b: Vec<f64> = t2.run(a, b).to_data().to_vec().unwrap();
                        let r2: Vec<f64> = s1.run(c.max(1), 0).to_data().to_vec().unwrap();
                        json!({"first": nums(&r1), "first_again": nums(&r1b), "second": nums(&r2), "pos_after_first": nums(&pos_after),
                               "rng_same_as_rerun": &rng_after == t2.verif_rng(), "shape": [a, 2]})
                    }
                }
            }
            "gibbs_sweeps" => {
                // GibbsMarkovChain::step with a scripted, recording Conditional: every sweep must ask each coordinate exactly
                // once, in the freshest state, also when a sweep reproduces the stored values
                use mini_mcmc::core::MarkovChain;
                use mini_mcmc::distributions::Conditional;
                use mini_mcmc::gibbs::GibbsMarkovChain;
                use std::cell::RefCell;
                use std::rc::Rc;
                #[derive(Clone)]
                struct Rec { log: Rc<RefCell<Vec<(usize, Vec<i64>)>>>, mode: u8, sweep_len: usize }
                impl Conditional<i64> for Rec {
                    fn sample(&mut self, index: usize, given: &[i64]) -> i64 {
                        let n = self.log.borrow().len();
                        self.log.borrow_mut().push((index, given.to_vec()));
                        let sweep = n / self.sweep_len.max(1);
                        match self.mode {
                            0 => if sweep == 0 { given[index] } else { (n as i64) * 7 + 1 },          // first sweep reproduces the state
                            1 => (n as i64) * 3 + 11,                                                  // always fresh
                            _ => if sweep % 2 == 0 { given[index] } else { given[index] + 5 },         // alternate: unchanged / moved
                        }
                    }
                }
                let d = case["d"].as_u64().unwrap_or(3) as usize;
                let sweeps = case["sweeps"].as_u64().unwrap_or(3) as usize;
                let mode = match case["script"].as_str().unwrap_or("fresh") { "repeat_first" => 0, "fresh" => 1, _ => 2 };
                let log = Rc::new(RefCell::new(vec![]));
                let init: Vec<i64> = (0..d as i64).map(|i| 100 + i).collect();
                let mut chain = GibbsMarkovChain::new(Rec { log: log.clone(), mode, sweep_len: d }, &init);
                let mut bad: Vec<String> = vec![];
                let mut model = init.clone();
                for s in 0..sweeps {
                    let n0 = log.borrow().len();
                    let ret = chain.step().clone();
                    let calls: Vec<(usize, Vec<i64>)> = log.borrow()[n0..].to_vec();
                    let mut idx: Vec<usize> = calls.iter().map(|c| c.0).collect();
                    idx.sort();
                    if idx != (0..d).collect::<Vec<_>>() {
                        bad.push(format!("sweep {s}: coordinates asked {:?}", calls.iter().map(|c| c.0).collect::<Vec<_>>()));
                        break;
                    }
                    // re-derive the answers from the script to follow the freshest state
                    let mut k = n0;
                    for (i, given) in &calls {
                        if given != &model { bad.push(format!("sweep {s}: request for coordinate {i} saw {:?}, freshest state is {:?}", given, model)); }
                        let sweep = k / d.max(1);
                        let ans = match mode { 0 => if sweep == 0 { given[*i] } else { (k as i64) * 7 + 1 }, 1 => (k as i64) * 3 + 11,
                                               _ => if sweep % 2 == 0 { given[*i] } else { given[*i] + 5 } };
                        model[*i] = ans;
                        k += 1;
                    }
                    if ret != model || chain.current_state != model { bad.push(format!("sweep {s}: state {:?}, expected {:?}", chain.current_state, model)); }
                }
                bad.truncate(3);
                json!({"ok": bad.is_empty(), "bad": bad})
            }
            "mh_seed_streams" => {
                // MetropolisHastings::new(..).seed(s) with a user-defined proposal that records the seed it is given: reproducible
                // (two constructions agree), and all 2n generators (acceptance + proposal) pairwise different
                use mini_mcmc::distributions::{Proposal, Target};
                use mini_mcmc::metropolis_hastings::MetropolisHastings;
                use rand::rngs::SmallRng;
                use rand::SeedableRng;
                #[derive(Clone)]
                struct Flat;
                impl Target<f64, f64> for Flat { fn unnorm_logp(&self, _x: &[f64]) -> f64 { 0.0 } }
                #[derive(Clone, PartialEq, Debug)]
                struct RecP { seed: Option<u64> }
                impl Proposal<f64, f64> for RecP {
                    fn sample(&mut self, c: &[f64]) -> Vec<f64> { c.to_vec() }
                    fn logp(&self, _f: &[f64], _t: &[f64]) -> f64 { 0.0 }
                    fn set_seed(self, seed: u64) -> Self { RecP { seed: Some(seed) } }
                }
                let seed: u64 = case["seed"].as_str().and_then(|s| s.parse().ok()).unwrap_or(7);
                let n = case["chains"].as_u64().unwrap_or(2) as usize;
                let mk = || MetropolisHastings::new(Flat, RecP { seed: None }, vec![vec![0.0_f64]; n]).seed(seed);
                let (a, b) = (mk(), mk());
                let mut bad: Vec<String> = vec![];
                let mut gens: Vec<SmallRng> = vec![];
                for i in 0..n {
                    if a.chains[i].rng != b.chains[i].rng || a.chains[i].proposal != b.chains[i].proposal {
                        bad.push(format!("chain {i}: two identically seeded samplers differ"));
                    }
                    match a.chains[i].proposal.seed {
                        None => bad.push(format!("chain {i}: proposal was not reseeded")),
                        Some(ps) => gens.push(SmallRng::seed_from_u64(ps)),
                    }
                    gens.push(a.chains[i].rng.clone());
                }
                'outer: for i in 0..gens.len() {
                    for j in (i + 1)..gens.len() {
                        if gens[i] == gens[j] { bad.push(format!("generators {i} and {j} (acceptance/proposal interleaved) are identical")); break 'outer; }
                    }
                }
                bad.truncate(3);
                json!({"ok": bad.is_empty(), "bad": bad})
            }
            "runner_layout" => {
                // ChainRunner::run on a user-defined sampler whose chain c counts from 100*c: row c, entry k must be
                // 100*c + n_discard + k + 1; a following run continues
                use mini_mcmc::core::{ChainRunner, HasChains, MarkovChain};
                struct Counter { state: Vec<f64> }
                impl MarkovChain<f64> for Counter {
                    fn step(&mut self) -> &Vec<f64> { self.state[0] += 1.0; self.state[1] -= 1.0; &self.state }
                    fn current_state(&self) -> &Vec<f64> { &self.state }
                }
                struct S { chains: Vec<Counter> }
                impl HasChains<f64> for S {
                    type Chain = Counter;
                    fn chains_mut(&mut self) -> &mut Vec<Counter> { &mut self.chains }
                }
                let nc = case["chains"].as_u64().unwrap() as usize;
                let ncol = case["n_collect"].as_u64().unwrap() as usize;
                let ndis = case["n_discard"].as_u64().unwrap() as usize;
                let mut s = S { chains: (0..nc).map(|c| Counter { state: vec![100.0 * c as f64, -100.0 * c as f64] }).collect() };
                let r1 = s.run(ncol, ndis);
                let r2 = s.run(ncol, 0);
                let mut bad: Vec<String> = vec![];
                match (&r1, &r2) {
                    (Ok(a), Ok(b)) => {
                        if a.shape() != [nc, ncol, 2] || b.shape() != [nc, ncol, 2] {
                            bad.push(format!("shapes {:?} {:?}", a.shape(), b.shape()));
                        } else {
                            for c in 0..nc {
                                for k in 0..ncol {
                                    let w1 = 100.0 * c as f64 + (ndis + k + 1) as f64;
                                    let w2 = 100.0 * c as f64 + (ndis + ncol + k + 1) as f64;
                                    if a[[c, k, 0]] != w1 || a[[c, k, 1]] != -w1 { bad.push(format!("first run [{c},{k}] = {} expected {}", a[[c, k, 0]], w1)); }
                                    if b[[c, k, 0]] != w2 || b[[c, k, 1]] != -w2 { bad.push(format!("second run [{c},{k}] = {} expected {}", b[[c, k, 0]], w2)); }
                                }
                            }
                        }
                    }
                    _ => bad.push("run returned Err".into()),
                }
                bad.truncate(4);
                json!({"ok": bad.is_empty(), "bad": bad})
            }
            "run_chain_progress" => {
                use mini_mcmc::core::{run_chain, run_chain_progress, MarkovChain};
                struct Counter { state: Vec<f64>, steps: usize }
                impl MarkovChain<f64> for Counter {
                    fn step(&mut self) -> &Vec<f64> { self.steps += 1; self.state[0] += 1.0; self.state[1] -= 1.0; &self.state }
                    fn current_state(&self) -> &Vec<f64> { &self.state }
                }
                let ncol = case["n_collect"].as_u64().unwrap() as usize;
                let ndis = case["n_discard"].as_u64().unwrap() as usize;
                let (tx, rx) = std::sync::mpsc::channel();
                let kept = if case["receiver"].as_str() == Some("kept") { Some(rx) } else { drop(rx); None };
                let mut a = Counter { state: vec![0.0, 0.0], steps: 0 };
                let mut b = Counter { state: vec![0.0, 0.0], steps: 0 };
                let r = run_chain_progress(&mut a, ncol, ndis, tx);
                let plain = run_chain(&mut b, ncol, ndis);
                let last_n = kept.as_ref().and_then(|rx| rx.try_iter().last()).map(|s| s.n);
                match r {
                    Ok(arr) => json!({"ok": true, "same_as_run": arr == plain, "steps": a.steps, "last_report_n": last_n}),
                    Err(_) => json!({"ok": false, "steps": a.steps}),
                }
            }
            "progress_terminates" => {
                // real run_progress with k chains (more than the 5 bars when k > 5) under a wall-clock limit;
                // also compares the draws with run() on an identically seeded sampler
                use mini_mcmc::core::ChainRunner;
                use mini_mcmc::distributions::{Gaussian2D, IsotropicGaussian, Proposal};
                use mini_mcmc::metropolis_hastings::MetropolisHastings;
                let k = case["chains"].as_u64().unwrap_or(6) as usize;
                let limit = case["limit_s"].as_u64().unwrap_or(20);
                let (txd, rxd) = std::sync::mpsc::channel();
                std::thread::spawn(move || {
                    let mk = || {
                        let target = Gaussian2D::<f64> { mean: ndarray::arr1(&[0.0, 0.0]), cov: ndarray::arr2(&[[1.0, 0.0], [0.0, 1.0]]) };
                        let proposal = IsotropicGaussian::<f64>::new(1.0).set_seed(3);
                        MetropolisHastings::new(target, proposal, vec![vec![0.0_f64, 0.0]; k]).seed(11)
                    };
                    let mut a = mk();
                    let mut b = mk();
                    let r = a.run_progress(4, 1);
                    let plain = b.run(4, 1).unwrap();
                    let same = match &r {
                        Ok((s, _)) => s == &plain,
                        Err(_) => false,
                    };
                    let _ = txd.send((r.is_ok(), same));
                });
                match rxd.recv_timeout(std::time::Duration::from_secs(limit)) {
                    Ok((ok, same)) => json!({"timeout": false, "ok": ok, "same_draws_as_run": same}),
                    Err(_) => {
                        println!("{}", json!({"timeout": true}));
                        std::process::exit(0);
                    }
                }
            }
            "progress_terminates_nuts" => {
                use mini_mcmc::nuts::NUTS;
                let k = case["chains"].as_u64().unwrap_or(6) as usize;
                let limit = case["limit_s"].as_u64().unwrap_or(40);
                let (txd, rxd) = std::sync::mpsc::channel();
                let f64_prec = case["precision"].as_str() == Some("f64");
                std::thread::spawn(move || {
                    macro_rules! go { ($T:ty, $B:ty) => {{
                        let mk = || {
                            let g = DiffableGaussian2D::<$T>::new([0.0, 0.0], [[1.0, 0.0], [0.0, 1.0]]);
                            NUTS::<$T, $B, _>::new(g, vec![vec![0.1 as $T, 0.2]; k], 0.8).set_seed(9)
                        };
                        let (mut a, mut b) = (mk(), mk());
                        let r = a.run_progress(4, 1);
                        // run(5, 1) keeps the states after 1..=5 transitions; run_progress(4, 1) the states after 2..=5
                        let plain: Vec<$T> = b.run(5, 1).to_data().to_vec().unwrap();
                        let shifted = match &r {
                            Ok((s, _)) => {
                                let v: Vec<$T> = s.to_data().to_vec().unwrap();
                                (0..k).all(|c| (0..4).all(|i| (0..2).all(|d| v[(c * 4 + i) * 2 + d].to_bits() == plain[(c * 5 + i + 1) * 2 + d].to_bits())))
                            }
                            Err(_) => false,
                        };
                        (r.is_ok(), shifted)
                    }}; }
                    let res = if f64_prec { go!(f64, B64) } else { go!(f32, B32) };
                    let _ = txd.send(res);
                });
                match rxd.recv_timeout(std::time::Duration::from_secs(limit)) {
                    Ok((ok, shifted)) => json!({"timeout": false, "ok": ok, "shifted_trajectory": shifted}),
                    Err(_) => {
                        println!("{}", json!({"timeout": true}));
                        std::process::exit(0);
                    }
                }
            }
            "init_props" => {
                use mini_mcmc::core::{init, init_det, init_with_seed};
                let mut pure = true; let mut prefix = true; let mut shape = true; let mut det = true; let mut norep = true; let mut finite = true;
                for &(n, d, seed) in &[(3usize, 2usize, 0u64), (65, 1, 7), (70, 3, u64::MAX), (2, 70, 42), (130, 2, 1), (0, 3, 5), (3, 0, 5)] {
                    let a: Vec<Vec<f64>> = init_with_seed(n, d, seed);
                    let b: Vec<Vec<f64>> = init_with_seed(n, d, seed);
                    let big: Vec<Vec<f64>> = init_with_seed(n + 7, d, seed);
                    shape &= a.len() == n && a.iter().all(|r| r.len() == d);
                    pure &= a == b;
                    prefix &= big.len() == n + 7 && big[..n] == a[..];
                    finite &= a.iter().flatten().all(|x| x.is_finite());
                    // no draw used twice: all entries pairwise different (equal draws have probability ~0)
                    let flat: Vec<u64> = big.iter().flatten().map(|x| x.to_bits()).collect();
                    let mut sorted = flat.clone(); sorted.sort(); sorted.dedup();
                    norep &= sorted.len() == flat.len();
                    let f: Vec<Vec<f32>> = init_with_seed(n, d, seed);
                    shape &= f.len() == n && f.iter().all(|r| r.len() == d);
                }
                let x: Vec<Vec<f64>> = init_det(5, 3);
                det &= x == init_with_seed::<f64>(5, 3, 42);
                let y: Vec<Vec<f64>> = init(66, 2);
                shape &= y.len() == 66 && y.iter().all(|r| r.len() == 2);
                let fy: Vec<u64> = y.iter().flatten().map(|v| v.to_bits()).collect();
                let mut sy = fy.clone(); sy.sort(); sy.dedup();
                norep &= sy.len() == fy.len();
                json!({"shape": shape, "pure": pure, "prefix": prefix, "init_det_is_seed_42": det, "no_draw_used_twice": norep, "finite": finite})
            }
            "categorical_new" => {
                use mini_mcmc::distributions::{Categorical, Discrete};
                let w = f64s(&case["weights"]);
                let c = Categorical::<f64>::new(w.clone());
                let lp: Vec<f64> = (0..w.len() + 1).map(|i| c.logp(i)).collect();
                json!({"probs": nums(&c.probs), "logp": nums(&lp)})
            }
            "nuts_mu_persist" => {
                let g = DiffableGaussian2D::<f64>::new([0.0, 1.0], [[4.0, 2.0], [2.0, 3.0]]);
                let mut c = NUTSChain::<f64, B64, _>::new(g, vec![0.5, -0.5], 0.8).set_seed(4);
                let _ = c.run(1, 0); // first use: eps0 chosen, no transition, no adaptation yet
                let a0 = c.verif_adapt();
                let first_ok = (a0.3 - (10.0 * a0.0).ln()).abs() < 1e-12;
                let _ = c.run(3, 6); // warm-up adapts epsilon
                let a1 = c.verif_adapt();
                // starting another run must not touch H-bar / epsilon-bar / m: observe them right after init (run(1,0) does no transition)
                let _ = c.run(1, 0);
                let a1b = c.verif_adapt();
                let state_kept = a1b.1 == a1.1 && a1b.2 == a1.2 && a1b.4 == a1.4;
                let _ = c.run(2, 0);
                let a2 = c.verif_adapt();
                json!({"eps0": num(a0.0), "mu_after_first_use": num(a0.3), "mu_first_is_ln_10_eps0": first_ok,
                       "mu_after_warmup_run": num(a1.3), "mu_after_third_run": num(a2.3),
                       "mu_unchanged_on_second_run": a1.3 == a0.3 && a2.3 == a0.3 && state_kept, "adaptation_state_kept_by_init": state_kept,
                       "epsilon_after_warmup": num(a1.0)})
            }
            "nuts_unseeded_distinct" => {
                use mini_mcmc::nuts::NUTS;
                let g = DiffableGaussian2D::<f64>::new([0.0, 0.0], [[1.0, 0.0], [0.0, 1.0]]);
                let s = NUTS::<f64, B64, _>::new(g, vec![vec![0.0, 0.0]; 4], 0.8);
                let ch = s.verif_chains();
                let mut distinct = true;
                for i in 0..ch.len() { for j in (i + 1)..ch.len() { if ch[i].verif_rng() == ch[j].verif_rng() { distinct = false; } } }
                json!({"distinct": distinct})
            }
            "nuts_set_seed_max" => {
                use mini_mcmc::nuts::NUTS;
                let seed = case["seed"].as_u64().unwrap_or(u64::MAX - 1);
                let mk = || {
                    let g = DiffableGaussian2D::<f64>::new([0.0, 0.0], [[1.0, 0.0], [0.0, 1.0]]);
                    NUTS::<f64, B64, _>::new(g, vec![vec![0.0, 0.0]; 3], 0.8).set_seed(seed)
                };
                let (a, b) = (mk(), mk());
                let (ca, cb) = (a.verif_chains(), b.verif_chains());
                let distinct = ca[0].verif_rng() != ca[1].verif_rng() && ca[1].verif_rng() != ca[2].verif_rng() && ca[0].verif_rng() != ca[2].verif_rng();
                let reproducible = (0..3).all(|i| ca[i].verif_rng() == cb[i].verif_rng());
                json!({"distinct": distinct, "reproducible": reproducible})
            }
            "progress_stats" => {
                // run_progress: draws equal run()'s on an identically seeded sampler (MH, HMC) and the returned RunStats equal
                // RunStats::from(the returned draws)
                use mini_mcmc::core::ChainRunner;
                use mini_mcmc::distributions::{Gaussian2D, IsotropicGaussian, Proposal};
                use mini_mcmc::metropolis_hastings::MetropolisHastings;
                use mini_mcmc::nuts::NUTS;
                use mini_mcmc::stats::{BasicStats, RunStats};
                let (a, b) = (case["n_collect"].as_u64().unwrap_or(8) as usize, case["n_discard"].as_u64().unwrap_or(2) as usize);
                let k = case["chains"].as_u64().unwrap_or(3) as usize;
                fn beq(x: &BasicStats, y: &BasicStats) -> bool {
                    let f = |p: f32, q: f32| (p.is_nan() && q.is_nan()) || p == q;
                    f(x.min, y.min) && f(x.max, y.max) && f(x.mean, y.mean) && f(x.std, y.std) && f(x.median, y.median)
                }
                let seq = |st: &RunStats, want: &RunStats| beq(&st.ess, &want.ess) && beq(&st.rhat, &want.rhat);
                let g = || DiffableGaussian2D::<f64>::new([0.0, 1.0], [[4.0, 2.0], [2.0, 3.0]]);
                let inits = |k: usize| (0..k).map(|c| vec![0.5 * c as f64, -0.25 * c as f64]).collect::<Vec<_>>();
                match case["sampler"].as_str().unwrap_or("mh") {
                    "mh" => {
                        let mk = || {
                            let target = Gaussian2D::<f64> { mean: ndarray::arr1(&[0.0, 0.0]), cov: ndarray::arr2(&[[1.0, 0.0], [0.0, 1.0]]) };
                            MetropolisHastings::new(target, IsotropicGaussian::<f64>::new(1.0).set_seed(3), inits(k)).seed(11)
                        };
                        let (mut s1, mut s2) = (mk(), mk());
                        let (sample, st) = s1.run_progress(a, b).unwrap();
                        let plain = s2.run(a, b).unwrap();
                        let want = RunStats::from(sample.view());
                        json!({"same_draws_as_run": sample == plain, "stats_from_returned_draws": seq(&st, &want)})
                    }
                    "hmc" => {
                        let mk = || HMC::<f64, B64, _>::new(g(), inits(k), 0.2, 3).set_seed(7);
                        let (mut s1, mut s2) = (mk(), mk());
                        let (sample, st) = s1.run_progress(a, b).unwrap();
                        let plain: Vec<f64> = s2.run(a, b).to_data().to_vec().unwrap();
                        let flat: Vec<f64> = sample.to_data().to_vec().unwrap();
                        let arr = ndarray::Array3::from_shape_vec((k, a, 2), flat.clone()).unwrap();
                        let want = RunStats::from(arr.view());
                        json!({"same_draws_as_run": flat == plain, "stats_from_returned_draws": seq(&st, &want)})
                    }
                    _ => {
                        let mut s1 = NUTS::<f64, B64, _>::new(g(), inits(k), 0.8).set_seed(7);
                        let (sample, st) = s1.run_progress(a, b).unwrap();
                        let flat: Vec<f64> = sample.to_data().to_vec().unwrap();
                        let arr = ndarray::Array3::from_shape_vec((k, a, 2), flat).unwrap();
                        let want = RunStats::from(arr.view());
                        json!({"stats_from_returned_draws": seq(&st, &want)})
                    }
                }
            }
            "progress_precision" => {
                // run_progress on every element type x backend precision; a panic is caught and reported
                let sampler = case["sampler"].as_str().unwrap_or("NUTS").to_string();
                let t = case["T"].as_str().unwrap_or("f32").to_string();
                let be = case["backend"].as_str().unwrap_or("f32").to_string();
                let r = std::panic::catch_unwind(move || -> bool {
                    use mini_mcmc::nuts::NUTS;
                    macro_rules! nuts { ($T:ty, $B:ty) => {{
                        let g = DiffableGaussian2D::<$T>::new([0.0, 0.0], [[1.0, 0.0], [0.0, 1.0]]);
                        let mut s = NUTS::<$T, $B, _>::new(g, vec![vec![0.1 as $T, 0.2], vec![-0.3, 0.4]], 0.8).set_seed(5);
                        s.run_progress(6, 2).is_ok()
                    }}; }
                    macro_rules! hmc { ($T:ty, $B:ty) => {{
                        let g = DiffableGaussian2D::<$T>::new([0.0, 0.0], [[1.0, 0.0], [0.0, 1.0]]);
                        let mut s = HMC::<$T, $B, _>::new(g, vec![vec![0.1 as $T, 0.2], vec![-0.3, 0.4]], 0.1, 2).set_seed(5);
                        s.run_progress(6, 2).is_ok()
                    }}; }
                    match (sampler.as_str(), t.as_str(), be.as_str()) {
                        ("NUTS", "f32", "f32") => nuts!(f32, B32),
                        ("NUTS", "f64", "f64") => nuts!(f64, B64),
                        ("NUTS", "f32", "f64") => nuts!(f32, B64),
                        ("NUTS", "f64", "f32") => nuts!(f64, B32),
                        ("HMC", "f32", "f32") => hmc!(f32, B32),
                        ("HMC", "f64", "f64") => hmc!(f64, B64),
                        ("HMC", "f32", "f64") => hmc!(f32, B64),
                        (_, _, _) => hmc!(f64, B32),
                    }
                });
                match r {
                    Ok(ok) => json!({"panicked": false, "ok": ok}),
                    Err(_) => json!({"panicked": true}),
                }
            }
            _ => json!({"error": format!("unknown case {}", case["case"])}),
        }
    }
}

#[cfg(not(kani))]
fn main() {
    let args: Vec<String> = std::env::args().collect();
    let text = std::fs::read_to_string(&args[1]).expect("read case");
    let case: serde_json::Value = serde_json::from_str(&text).expect("parse case");
    let out = if case["case"].as_str() == Some("batch") {
        // each case is isolated: a panic in one is reported for that case only
        let outs: Vec<serde_json::Value> = case["cases"].as_array().unwrap().iter().map(|c| {
            let c2 = c.clone();
            match std::panic::catch_unwind(move || imp::run(&c2)) {
                Ok(v) => v,
                Err(_) => serde_json::json!({"panic": true}),
            }
        }).collect();
        serde_json::Value::Array(outs)
    } else {
        imp::run(&case)
    };
    println!("{}", out);
}
